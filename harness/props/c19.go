package props

import (
	"bytes"
	"crypto/x509"
	"encoding/binary"
	"encoding/hex"
	"encoding/pem"
	"fmt"
	"math/big"
	"os"
	"os/exec"
	"path/filepath"
	"strings"
	"sync"
	"time"

	"github.com/google/go-tdx-guest/abi"
	ccpb "github.com/google/go-tdx-guest/proto/checkconfig"
	pb "github.com/google/go-tdx-guest/proto/tdx"
	testcases "github.com/google/go-tdx-guest/testing"
	"google.golang.org/protobuf/encoding/prototext"
	"google.golang.org/protobuf/proto"

	"verifharness/core"
	"verifharness/world"
)

// a flag as the harness gives it and as the model sees it
type fv struct {
	state int    // 0 unset, 1 malformed, 2 well-formed
	arg   string // command-line value
	val   core.Sexp
}

func (f fv) sexp() core.Sexp {
	switch f.state {
	case 0:
		return core.Ls(core.A(0))
	case 1:
		return core.Ls(core.A(1))
	}
	return core.Ls(core.A(2), f.val)
}

var c19ByteFlags = []struct {
	name string
	size int
}{{"qe_vendor_id", 16}, {"minimum_tee_tcb_svn", 16}, {"mr_seam", 48}, {"td_attributes", 8}, {"xfam", 8}, {"mr_td", 48},
	{"mr_config_id", 48}, {"mr_owner", 48}, {"mr_owner_config", 48}, {"report_data", 64}}

// a CA bundle file (or inline string)
type c19Bundle struct {
	path     string
	content  []byte
	readable bool
	certs    []*x509.Certificate
	desc     string
}

type c19Case struct {
	class, desc string
	extraArgs   []string // raw extra arguments; syntaxBad says whether flag.Parse rejects them
	syntaxBad   bool
	checkCrl    fv
	getCol      fv
	minQe       fv
	minPce      fv
	bytesF      [10]fv
	rtmrs       fv
	roots       fv // val filled from rootsB
	rootsB      []c19Bundle
	rootsArg    string // overrides the joined paths (for malformed lists)

	cfgKind   string // "", "bin", "text", "missing", "garbage", "textbad"
	cfg       *ccpb.Config
	cfgPathsB []c19Bundle // bundles named by cfg.RootOfTrust.CabundlePaths
	cfgInline []c19Bundle // bundles given inline

	inform    string // bin / proto / textproto / other
	inputKind string // "msg" (w.Quote, possibly mutated), "garbage", "empty", "missing"
	mutRaw    func(raw []byte) []byte
	mutMsg    func(q *pb.QuoteV4)

	w       *world.World
	sample  bool                  // the Intel sample quote instead of w's
	getter  string                // "" | "local"
	net     map[string]world.Resp // non-nil: the tool's network is the loopback proxy answering from this table
	want    int                   // expected exit code fixed by the property for this construction, -1 = no assertion
	wantWhy string
}

type c19Env struct {
	net    *fakeNet
	caFile string
	c      *core.Ctx
	bin    string
	dir    string
	fileNo int
	mu     sync.Mutex
}

func (e *c19Env) file(name string, content []byte) string {
	e.mu.Lock()
	e.fileNo++
	p := filepath.Join(e.dir, fmt.Sprintf("%04d-%s", e.fileNo, name))
	e.mu.Unlock()
	if err := os.WriteFile(p, content, 0o644); err != nil {
		panic(err)
	}
	return p
}

func pemCerts(certs ...*x509.Certificate) []byte {
	var b bytes.Buffer
	for _, c := range certs {
		_ = pem.Encode(&b, &pem.Block{Type: "CERTIFICATE", Bytes: c.Raw})
	}
	return b.Bytes()
}

func bundleSexp(sc *Scenario, idx map[*x509.Certificate]int, b c19Bundle) core.Sexp {
	var cs []core.Sexp
	for _, c := range b.certs {
		cs = append(cs, sc.ExtraS[idx[c]])
	}
	return core.Ls(core.Bool(b.readable), core.Ls(cs...))
}

func optB(b []byte) core.Sexp {
	if len(b) == 0 {
		return core.Ls()
	}
	return core.Ls(core.Bs(b))
}

func bl(l [][]byte) core.Sexp {
	var out []core.Sexp
	for _, x := range l {
		out = append(out, core.Bs(x))
	}
	return core.Ls(out...)
}

type c19Result struct {
	cs     *c19Case
	code   int
	stderr string
	input  core.Sexp
	took   time.Duration
}

// exec runs the tool for one case and builds the model input.
func (e *c19Env) exec(cs *c19Case) *c19Result {
	var args []string
	flagS := func(name string, f fv) {
		if f.state != 0 {
			args = append(args, "-"+name+"="+f.arg)
		}
	}
	flagS("check_crl", cs.checkCrl)
	flagS("get_collateral", cs.getCol)
	flagS("minimum_qe_svn", cs.minQe)
	flagS("minimum_pce_svn", cs.minPce)
	for i, bf := range c19ByteFlags {
		flagS(bf.name, cs.bytesF[i])
	}
	flagS("rtmrs", cs.rtmrs)
	if cs.roots.state != 0 {
		arg := cs.rootsArg
		if arg == "" {
			var ps []string
			for _, b := range cs.rootsB {
				ps = append(ps, b.path)
			}
			arg = strings.Join(ps, ",")
		}
		args = append(args, "-trusted_roots="+arg)
	}
	args = append(args, cs.extraArgs...)
	if cs.getter == "local" {
		args = append(args, "-test_local_getter")
	}
	args = append(args, "-timeout=700ms", "-max_retry_delay=150ms")

	// config file
	cfgS := core.Ls(core.A(0))
	var allCerts []*x509.Certificate
	addCerts := func(bs []c19Bundle) {
		for _, b := range bs {
			allCerts = append(allCerts, b.certs...)
		}
	}
	addCerts(cs.rootsB)
	addCerts(cs.cfgPathsB)
	addCerts(cs.cfgInline)
	switch cs.cfgKind {
	case "bin", "text":
		var data []byte
		name := "config.pb"
		if cs.cfgKind == "text" {
			data, _ = prototext.Marshal(cs.cfg)
			name = "config.textproto"
		} else {
			data, _ = proto.Marshal(cs.cfg)
		}
		args = append(args, "-config="+e.file(name, data))
	case "missing":
		args = append(args, "-config="+filepath.Join(e.dir, "no-such-config.pb"))
		cfgS = core.Ls(core.A(1))
	case "garbage":
		args = append(args, "-config="+e.file("config.pb", []byte{0xff, 0xff, 0xff, 0x01, 0x02}))
		cfgS = core.Ls(core.A(1))
	case "textbad":
		args = append(args, "-config="+e.file("config.textproto", []byte("policy { header_policy { minimum_qe_svn: \"x\" ")))
		cfgS = core.Ls(core.A(1))
	}

	// quote input
	var raw []byte
	var msg *pb.QuoteV4
	if cs.sample {
		raw, _ = readRepoFile("testing/testdata/tdx_prod_quote_SPR_E4.dat")
	} else {
		raw = append([]byte{}, cs.w.Quote.Raw...)
	}
	if cs.mutRaw != nil {
		raw = cs.mutRaw(raw)
	}
	inputS := core.Ls(core.A(0))
	inform := cs.inform
	if inform == "" {
		inform = "bin"
	}
	args = append(args, "-inform="+inform)
	switch cs.inputKind {
	case "", "msg":
		var data []byte
		switch inform {
		case "proto", "textproto":
			qa, err := abi.QuoteToProto(raw)
			if err != nil {
				panic(err)
			}
			msg = qa.(*pb.QuoteV4)
			if cs.mutMsg != nil {
				cs.mutMsg(msg)
			}
			if inform == "proto" {
				data, _ = proto.Marshal(msg)
			} else {
				data, _ = prototext.Marshal(msg)
			}
			// what the tool decodes: round-trip through the same codec
			dec := &pb.QuoteV4{}
			if inform == "proto" {
				_ = proto.Unmarshal(data, dec)
			} else {
				_ = prototext.Unmarshal(data, dec)
			}
			msg = dec
			inputS = core.Ls(core.A(2), quoteSexp(msg))
		case "bin":
			data = raw
			inputS = core.Ls(core.A(1), core.Bs(raw))
		default:
			data = raw
		}
		args = append(args, "-in="+e.file("quote.dat", data))
	case "garbage":
		data := []byte("this is not a quote")
		args = append(args, "-in="+e.file("quote.dat", data))
		switch inform {
		case "bin":
			inputS = core.Ls(core.A(1), core.Bs(data))
		}
	case "empty":
		args = append(args, "-in="+e.file("quote.dat", nil))
		switch inform {
		case "bin":
			inputS = core.Ls(core.A(1), core.Bs(nil))
		case "proto", "textproto":
			msg = &pb.QuoteV4{}
			inputS = core.Ls(core.A(2), quoteSexp(msg))
		}
	case "missing":
		args = append(args, "-in="+filepath.Join(e.dir, "no-such-quote.dat"))
	}

	// ---- run ----
	cmd := exec.Command(e.bin, args...)
	if cs.net != nil && e.net != nil {
		e.mu.Lock()
		e.fileNo++
		id := fmt.Sprintf("run%d", e.fileNo)
		e.mu.Unlock()
		cmd.Env = append(os.Environ(), e.net.env(id, cs.net, e.caFile)...)
	}
	var stderr bytes.Buffer
	cmd.Stderr = &stderr
	cmd.Stdout = nil
	start := time.Now()
	err := cmd.Run()
	took := time.Since(start)
	code := 0
	if err != nil {
		if ee, ok := err.(*exec.ExitError); ok {
			code = ee.ExitCode()
		} else {
			code = -1
		}
	}

	// ---- model input ----
	sc := &Scenario{Raw: raw, Msg: msg, UseMsg: msg != nil, Resp: map[string]world.Resp{}, Wall: start, Extra: allCerts}
	if cs.getter == "local" {
		for u, r := range testcases.TestGetter.Responses {
			sc.Resp[u] = world.Resp{Header: r.Header, Body: r.Body}
		}
	}
	for u, r := range cs.net {
		sc.Resp[u] = r
	}
	worldS, _ := sc.abstract()
	idx := map[*x509.Certificate]int{}
	for i, c := range allCerts {
		if _, ok := idx[c]; !ok {
			idx[c] = i
		}
	}
	var rootsV []core.Sexp
	for _, b := range cs.rootsB {
		rootsV = append(rootsV, bundleSexp(sc, idx, b))
	}
	roots := cs.roots
	roots.val = core.Ls(rootsV...)
	var bf []core.Sexp
	for i := range c19ByteFlags {
		bf = append(bf, cs.bytesF[i].sexp())
	}
	flagsS := core.Ls(core.Bool(!cs.syntaxBad), cs.checkCrl.sexp(), cs.getCol.sexp(), cs.minQe.sexp(), cs.minPce.sexp(), core.Ls(bf...), cs.rtmrs.sexp(), roots.sexp())
	if cs.cfgKind == "bin" || cs.cfgKind == "text" {
		rotS, polS := core.Ls(), core.Ls()
		if r := cs.cfg.RootOfTrust; r != nil {
			var ps, is []core.Sexp
			for _, b := range cs.cfgPathsB {
				ps = append(ps, bundleSexp(sc, idx, b))
			}
			for _, b := range cs.cfgInline {
				is = append(is, bundleSexp(sc, idx, b))
			}
			rotS = core.Ls(core.Ls(core.Ls(ps...), core.Ls(is...), core.Bool(r.CheckCrl), core.Bool(r.GetCollateral)))
		}
		if p := cs.cfg.Policy; p != nil {
			hS, bS := core.Ls(), core.Ls()
			if h := p.HeaderPolicy; h != nil {
				hS = core.Ls(core.Ls(core.A(uint64(h.MinimumQeSvn)), core.A(uint64(h.MinimumPceSvn)), optB(h.QeVendorId)))
			}
			if b := p.TdQuoteBodyPolicy; b != nil {
				bS = core.Ls(core.Ls(core.Ls(core.Ls(), optB(b.MinimumTeeTcbSvn), optB(b.MrSeam), optB(b.TdAttributes), optB(b.Xfam), optB(b.MrTd),
					optB(b.MrConfigId), optB(b.MrOwner), optB(b.MrOwnerConfig), optB(b.ReportData)), bl(b.Rtmrs), bl(b.AnyMrTd)))
			}
			polS = core.Ls(core.Ls(hS, bS))
		}
		cfgS = core.Ls(core.A(2), core.Ls(rotS, polS))
	}
	input := core.Ls(flagsS, cfgS, inputS, worldS, zt(sc.Wall))
	return &c19Result{cs: cs, code: code, stderr: stderr.String(), input: input, took: took}
}

func hexFlag(b []byte) fv { return fv{state: 2, arg: hex.EncodeToString(b), val: core.Bs(b)} }
func boolFlag(b bool) fv  { return fv{state: 2, arg: fmt.Sprint(b), val: core.Bool(b)} }
func uintFlag(v uint64) fv {
	return fv{state: 2, arg: fmt.Sprint(v), val: core.A(v)}
}
func badFlag(arg string) fv { return fv{state: 1, arg: arg} }

func C19(c *core.Ctx) {
	c.Rule = "the tools/check binary built from /repo, run on quotes forged under a PKI generated at the current wall clock (the tool has no time flag): config file {none, binary, textproto, missing, undecodable} with root_of_trust / policy / header_policy / td_quote_body_policy each absent or present and every field absent / matching / mismatching / malformed; every flag absent / matching / mismatching / malformed (bad hex, over-long, bad numbers, bad booleans, unknown flags, bad durations); number syntax of the SVN flags (leading zeros, 0x / 0o / 0b in either case, underscores, signs, spaces, exponents, non-ASCII digits, values at and beyond 16 bits); flag-over-config pairs in both directions for every field; -inform bin / proto / textproto / unknown with valid, forged, unparsable, empty and missing inputs; trusted-root bundles by flag and by config (own root, foreign root, garbage, missing file, directory, inline); collateral download with the recorded getter and with the unreachable network (-timeout 700ms). Observed: exit status and a Go panic trace on stderr. The model receives each flag / file classified as unset / malformed / value and the same world abstraction as the verification flow. non-trivial = the run gets past flag and config parsing; distinct = distinct (flags, config, input)"
	r := c.Rng
	now := time.Now()
	work, err := os.MkdirTemp(c.Work, "c19")
	if err != nil {
		panic(err)
	}
	e := &c19Env{c: c, dir: work, bin: filepath.Join(work, "checktool")}
	build := exec.Command("go", "build", "-o", e.bin, "./tools/check")
	build.Dir = c.Repo
	build.Env = append(os.Environ(), "GOFLAGS=-mod=mod", "GOPROXY=off", "GOSUMDB=off", "GOTOOLCHAIN=local")
	if out, err := build.CombinedOutput(); err != nil {
		c.Add(&core.Case{Class: "build", Desc: "go build ./tools/check failed: " + lastN(string(out), 600), SkipModel: true, Impl: core.Ls(), GT: "the check tool does not build"})
		return
	}
	if fn, err := newFakeNet(); err == nil {
		e.net = fn
		e.caFile = e.file("proxy-ca.pem", fn.caPEM)
		defer fn.close()
	} else {
		c.Add(&core.Case{Class: "build", Desc: "loopback proxy: " + err.Error(), SkipModel: true, Impl: core.Ls()})
	}
	mkWorld := func() *world.World {
		pki, err := world.NewPKI(r, world.PKIOpts{Now: now, Ext: world.RandomSGXExt(r)})
		if err != nil {
			panic(err)
		}
		w, err := world.BuildWorld(r, now, pki, world.DefaultQuoteFields(r))
		if err != nil {
			panic(err)
		}
		return w
	}
	w, foreign := mkWorld(), mkWorld()
	q0a, _ := abi.QuoteToProto(w.Quote.Raw)
	q0 := q0a.(*pb.QuoteV4)
	ownRoot := c19Bundle{path: e.file("root.pem", pemCerts(w.PKI.Root.Cert)), readable: true, certs: []*x509.Certificate{w.PKI.Root.Cert}, desc: "own root"}
	ownRoot.content = pemCerts(w.PKI.Root.Cert)
	foreignRoot := c19Bundle{path: e.file("foreign.pem", pemCerts(foreign.PKI.Root.Cert)), readable: true, certs: []*x509.Certificate{foreign.PKI.Root.Cert}, desc: "foreign root", content: pemCerts(foreign.PKI.Root.Cert)}
	bothRoots := c19Bundle{path: e.file("both.pem", pemCerts(foreign.PKI.Root.Cert, w.PKI.Root.Cert)), readable: true, certs: []*x509.Certificate{foreign.PKI.Root.Cert, w.PKI.Root.Cert}, desc: "foreign+own roots"}
	garbageBundle := c19Bundle{path: e.file("garbage.pem", []byte("not a certificate")), readable: true, desc: "garbage bundle", content: []byte("not a certificate")}
	missingBundle := c19Bundle{path: filepath.Join(work, "no-such-bundle.pem"), readable: false, desc: "missing bundle"}
	dirPath := filepath.Join(work, "adir")
	_ = os.Mkdir(dirPath, 0o755)

	rootsFlag := func(bs ...c19Bundle) (fv, []c19Bundle) { return fv{state: 2}, bs }

	base := func(class, desc string) *c19Case {
		cs := &c19Case{class: class, desc: desc, w: w, want: -1}
		cs.roots, cs.rootsB = rootsFlag(ownRoot)
		return cs
	}
	var cases []*c19Case
	add := func(cs *c19Case) { cases = append(cases, cs) }

	body, hdr := q0.TdQuoteBody, q0.Header
	fieldVals := [][]byte{hdr.QeVendorId, body.TeeTcbSvn, body.MrSeam, body.TdAttributes, body.Xfam, body.MrTd, body.MrConfigId, body.MrOwner, body.MrOwnerConfig, body.ReportData}
	wrongOf := func(v []byte) []byte { x := append([]byte{}, v...); x[0] ^= 0x80; return x }
	// for minimum_tee_tcb_svn "mismatching" means a minimum above the quote's value
	mismatch := func(i int) []byte {
		if i == 1 {
			x := append([]byte{}, fieldVals[1]...)
			for k := range x {
				if x[k] < 255 {
					x[k]++
					return x
				}
			}
			return nil
		}
		return wrongOf(fieldVals[i])
	}
	qeSvn := uint64(binary.LittleEndian.Uint16(hdr.QeSvn))
	pceSvn := uint64(binary.LittleEndian.Uint16(hdr.PceSvn))
	setCfgBytes := func(p *ccpb.Policy, i int, v []byte) {
		if p.HeaderPolicy == nil {
			p.HeaderPolicy = &ccpb.HeaderPolicy{}
		}
		if p.TdQuoteBodyPolicy == nil {
			p.TdQuoteBodyPolicy = &ccpb.TDQuoteBodyPolicy{}
		}
		t := p.TdQuoteBodyPolicy
		switch i {
		case 0:
			p.HeaderPolicy.QeVendorId = v
		case 1:
			t.MinimumTeeTcbSvn = v
		case 2:
			t.MrSeam = v
		case 3:
			t.TdAttributes = v
		case 4:
			t.Xfam = v
		case 5:
			t.MrTd = v
		case 6:
			t.MrConfigId = v
		case 7:
			t.MrOwner = v
		case 8:
			t.MrOwnerConfig = v
		case 9:
			t.ReportData = v
		}
	}
	emptyCfg := func() *ccpb.Config {
		return &ccpb.Config{RootOfTrust: &ccpb.RootOfTrust{}, Policy: &ccpb.Policy{HeaderPolicy: &ccpb.HeaderPolicy{}, TdQuoteBodyPolicy: &ccpb.TDQuoteBodyPolicy{}}}
	}
	kinds := []string{"bin", "text"}

	// ---- plain success and each single fault ----
	add(func() *c19Case {
		cs := base("ok", "valid quote, own root by flag, no policy")
		cs.want, cs.wantWhy = 0, "valid quote under its own root with no policy constraint"
		return cs
	}())
	for _, inf := range []string{"proto", "textproto"} {
		cs := base("ok", "valid quote as "+inf)
		cs.inform, cs.want, cs.wantWhy = inf, 0, "valid quote"
		add(cs)
	}
	{
		cs := base("verify", "no trusted root given: the embedded Intel root does not sign the forged chain")
		cs.roots, cs.rootsB = fv{}, nil
		cs.want, cs.wantWhy = 2, "the quote's chain does not lead to the effective (embedded) root"
		add(cs)
		cs = base("verify", "foreign root by flag")
		cs.roots, cs.rootsB = rootsFlag(foreignRoot)
		cs.want, cs.wantWhy = 2, "the quote's chain does not lead to the effective root"
		add(cs)
		cs = base("ok", "bundle with foreign and own root")
		cs.roots, cs.rootsB = rootsFlag(bothRoots)
		cs.want = 0
		add(cs)
		cs = base("ok", "two bundles: foreign, own")
		cs.roots, cs.rootsB = rootsFlag(foreignRoot, ownRoot)
		cs.want = 0
		add(cs)
		cs = base("verify", "quote signature bit flipped")
		cs.mutRaw = func(raw []byte) []byte { raw[700] ^= 1; return raw }
		cs.want, cs.wantWhy = 2, "forged quote"
		add(cs)
		cs = base("verify", "TD body bit flipped")
		cs.mutRaw = func(raw []byte) []byte { raw[200] ^= 1; return raw }
		cs.want = 2
		add(cs)
		for _, inf := range []string{"proto", "textproto"} {
			cs = base("verify", "message with a changed MR_TD as "+inf)
			cs.inform = inf
			cs.mutMsg = func(q *pb.QuoteV4) { q.TdQuoteBody.MrTd[3] ^= 4 }
			cs.want = 2
			add(cs)
			cs = base("verify", "message without a TD body as "+inf)
			cs.inform = inf
			cs.mutMsg = func(q *pb.QuoteV4) { q.TdQuoteBody = nil }
			cs.want = 2
			add(cs)
			cs = base("verify", "message without signed data as "+inf)
			cs.inform = inf
			cs.mutMsg = func(q *pb.QuoteV4) { q.SignedData = nil }
			cs.want = 2
			add(cs)
			cs = base("input", "empty input as "+inf)
			cs.inform, cs.inputKind = inf, "empty"
			cs.want, cs.wantWhy = 2, "an empty message does not verify (and must not crash the tool)"
			add(cs)
			cs = base("input", "garbage input as "+inf)
			cs.inform, cs.inputKind = inf, "garbage"
			cs.want, cs.wantWhy = 1, "undecodable input"
			add(cs)
		}
	}
	// inputs
	for _, k := range []string{"garbage", "empty", "missing"} {
		cs := base("input", k+" input, -inform bin")
		cs.inputKind = k
		if k == "missing" {
			cs.want, cs.wantWhy = 1, "unreadable input"
		}
		add(cs)
	}
	{
		cs := base("input", "unknown -inform value")
		cs.inform = "der"
		cs.want, cs.wantWhy = 1, "malformed flag"
		add(cs)
		cs = base("input", "truncated quote, -inform bin")
		cs.mutRaw = func(raw []byte) []byte { return raw[:900] }
		add(cs)
	}
	// flag syntax
	for _, bad := range [][]string{{"-no_such_flag"}, {"-timeout=soon"}, {"-verbosity=high"}, {"-quiet=perhaps"}, {"-max_retry_delay=-"}} {
		cs := base("usage/syntax", "command line "+strings.Join(bad, " "))
		cs.extraArgs, cs.syntaxBad = bad, true
		cs.want, cs.wantWhy = 1, "malformed flags"
		add(cs)
	}
	{
		cs := base("ok", "-quiet -verbosity=1")
		cs.extraArgs = []string{"-quiet", "-verbosity=1"}
		cs.want = 0
		add(cs)
	}

	// ---- every byte flag / config field: absent, matching, mismatching, malformed; and the overrides ----
	for i, bf := range c19ByteFlags {
		good, bad := fieldVals[i], mismatch(i)
		if i == 1 {
			good = make([]byte, 16) // a minimum of zero is always met
		}
		// flags alone
		cs := base("flag/matching", "-"+bf.name+" matching")
		cs.bytesF[i] = hexFlag(good)
		cs.want = 0
		add(cs)
		cs = base("flag/mismatching", "-"+bf.name+" mismatching")
		cs.bytesF[i] = hexFlag(bad)
		cs.want, cs.wantWhy = 4, "policy mismatch on a verified quote"
		add(cs)
		for _, m := range []string{"zz", hex.EncodeToString(make([]byte, bf.size+1)), "0x1!", "abc"} {
			cs = base("flag/malformed", "-"+bf.name+"="+lastN(m, 12))
			cs.bytesF[i] = badFlag(m)
			cs.want, cs.wantWhy = 1, "malformed flag"
			add(cs)
		}
		// shorter values are zero-padded by the flag library: well-formed
		short := good[:len(good)/2]
		padded := append(append([]byte{}, short...), make([]byte, bf.size-len(short))...)
		cs = base("flag/short", "-"+bf.name+" with half the bytes (zero-padded by cmdline.Bytes)")
		cs.bytesF[i] = fv{state: 2, arg: hex.EncodeToString(short), val: core.Bs(padded)}
		add(cs)
		for _, kind := range kinds {
			// config alone
			cfg := emptyCfg()
			setCfgBytes(cfg.Policy, i, good)
			cs = base("config/matching", kind+" config "+bf.name+" matching")
			cs.cfgKind, cs.cfg, cs.want = kind, cfg, 0
			add(cs)
			cfg = emptyCfg()
			setCfgBytes(cfg.Policy, i, bad)
			cs = base("config/mismatching", kind+" config "+bf.name+" mismatching")
			cs.cfgKind, cs.cfg, cs.want = kind, cfg, 4
			add(cs)
			cfg = emptyCfg()
			setCfgBytes(cfg.Policy, i, good[:len(good)-1])
			cs = base("config/malformed", kind+" config "+bf.name+" one byte short")
			cs.cfgKind, cs.cfg = kind, cfg
			cs.want, cs.wantWhy = 1, "malformed config (wrong field size)"
			add(cs)
			// good flag over bad config, bad flag over good config
			cfg = emptyCfg()
			setCfgBytes(cfg.Policy, i, bad)
			cs = base("override/flag-good", kind+" config "+bf.name+" mismatching, flag matching")
			cs.cfgKind, cs.cfg = kind, cfg
			cs.bytesF[i] = hexFlag(good)
			cs.want, cs.wantWhy = 0, "the flag overrides the config"
			add(cs)
			cfg = emptyCfg()
			setCfgBytes(cfg.Policy, i, good)
			cs = base("override/flag-bad", kind+" config "+bf.name+" matching, flag mismatching")
			cs.cfgKind, cs.cfg = kind, cfg
			cs.bytesF[i] = hexFlag(bad)
			cs.want, cs.wantWhy = 4, "the flag overrides the config"
			add(cs)
			// unset flag leaves the config in force, whatever other flags are given
			cfg = emptyCfg()
			setCfgBytes(cfg.Policy, i, bad)
			cs = base("override/unset", kind+" config "+bf.name+" mismatching, another flag given")
			cs.cfgKind, cs.cfg = kind, cfg
			cs.bytesF[(i+1)%10] = hexFlag(map[bool][]byte{true: make([]byte, 16), false: fieldVals[(i+1)%10]}[(i+1)%10 == 1])
			cs.want, cs.wantWhy = 4, "an unset flag leaves the config's value in force"
			add(cs)
		}
	}
	// ---- the SVN minima ----
	type svn struct {
		name string
		have uint64
		set  func(cs *c19Case, f fv)
		cfg  func(p *ccpb.Policy, v uint32)
	}
	for _, s := range []svn{
		{"minimum_qe_svn", qeSvn, func(cs *c19Case, f fv) { cs.minQe = f }, func(p *ccpb.Policy, v uint32) { p.HeaderPolicy.MinimumQeSvn = v }},
		{"minimum_pce_svn", pceSvn, func(cs *c19Case, f fv) { cs.minPce = f }, func(p *ccpb.Policy, v uint32) { p.HeaderPolicy.MinimumPceSvn = v }},
	} {
		if s.have >= 65535 {
			continue
		}
		cs := base("flag/matching", "-"+s.name+" at the quote's value")
		s.set(cs, uintFlag(s.have))
		cs.want = 0
		add(cs)
		cs = base("flag/mismatching", "-"+s.name+" above the quote's value")
		s.set(cs, uintFlag(s.have+1))
		cs.want = 4
		add(cs)
		for _, m := range []string{"abc", "-1", "4294967296", "1.5", ""} {
			if m == "" {
				continue
			}
			cs = base("flag/malformed", "-"+s.name+"="+m)
			s.set(cs, badFlag(m))
			cs.want, cs.wantWhy = 1, "malformed flag"
			add(cs)
		}
		cs = base("flag/malformed", "-"+s.name+"=70000 (does not fit 16 bits)")
		s.set(cs, uintFlag(70000))
		cs.want, cs.wantWhy = 1, "malformed flag value for a 16-bit field"
		add(cs)
		cs = base("flag/matching", "-"+s.name+"=0x0 (hexadecimal)")
		s.set(cs, fv{state: 2, arg: "0x0", val: core.A(0)})
		cs.want = 0
		add(cs)
		// number syntax: decimal, or 0x / 0o / 0b (either case) followed by digits of that
		// base; nothing else (a bare leading zero does not mean octal, no digit separators)
		for _, v := range []uint64{s.have, s.have + 1} {
			want := 0
			if v > s.have {
				want = 4
			}
			for _, t := range []string{fmt.Sprintf("0%d", v), fmt.Sprintf("000%d", v), fmt.Sprintf("0x%x", v), fmt.Sprintf("0X%X", v), fmt.Sprintf("0x00%x", v),
				fmt.Sprintf("0o%o", v), fmt.Sprintf("0O%o", v), fmt.Sprintf("0b%b", v), fmt.Sprintf("0B%b", v)} {
				cs = base("flag/number-syntax", "-"+s.name+"="+t+" (denotes "+fmt.Sprint(v)+")")
				s.set(cs, fv{state: 2, arg: t, val: core.A(v)})
				cs.want, cs.wantWhy = want, "the number the flag denotes is compared with the quote's"
				add(cs)
			}
		}
		for _, t := range []string{"0177777", "0200000", "0x10000", "0o200000", "0b10000000000000000", "00000000000000000000070000"} {
			cs = base("flag/number-syntax", "-"+s.name+"="+t+" (denotes a number that does not fit 16 bits)")
			s.set(cs, fv{state: 2, arg: t, val: core.A(70000)})
			cs.want, cs.wantWhy = 1, "malformed flag value for a 16-bit field"
			add(cs)
		}
		for _, t := range []string{"0xffff", "65535", "0XFFFF", "0o177777", "0b1111111111111111", "065535"} {
			cs = base("flag/number-syntax", "-"+s.name+"="+t+" (denotes 65535)")
			s.set(cs, fv{state: 2, arg: t, val: core.A(65535)})
			cs.want, cs.wantWhy = 4, "a minimum of 65535 is above the quote's value"
			add(cs)
		}
		for _, m := range []string{"0_0", "0x_0", "1_0", "0x", "0b", "0o", "0b2", "0o8", "0xg", "+1", "+0", " 1", "1 ", "1e2", "0x1p2", "08a", "0x-1", "١", "1,0", "0x0x0", "0d10"} {
			cs = base("flag/malformed", "-"+s.name+"="+m+" (not a number)")
			s.set(cs, badFlag(m))
			cs.want, cs.wantWhy = 1, "malformed flag"
			add(cs)
		}
		for _, kind := range kinds {
			cfg := emptyCfg()
			s.cfg(cfg.Policy, uint32(s.have+1))
			cs = base("config/mismatching", kind+" config "+s.name+" above the quote's")
			cs.cfgKind, cs.cfg, cs.want = kind, cfg, 4
			add(cs)
			cfg = emptyCfg()
			s.cfg(cfg.Policy, uint32(s.have+1))
			cs = base("override/flag-good", kind+" config "+s.name+" too high, flag 0")
			cs.cfgKind, cs.cfg = kind, cfg
			s.set(cs, uintFlag(0))
			cs.want, cs.wantWhy = 0, "the flag overrides the config (also with the value 0)"
			add(cs)
			cfg = emptyCfg()
			s.cfg(cfg.Policy, uint32(s.have))
			cs = base("override/flag-bad", kind+" config "+s.name+" fine, flag too high")
			cs.cfgKind, cs.cfg = kind, cfg
			s.set(cs, uintFlag(s.have+1))
			cs.want = 4
			add(cs)
			cfg = emptyCfg()
			s.cfg(cfg.Policy, 70000)
			cs = base("config/malformed", kind+" config "+s.name+"=70000")
			cs.cfgKind, cs.cfg = kind, cfg
			cs.want = 1
			add(cs)
		}
	}
	// ---- RTMRs ----
	{
		join := func(l [][]byte) string {
			var s []string
			for _, x := range l {
				s = append(s, hex.EncodeToString(x))
			}
			return strings.Join(s, ",")
		}
		good := body.Rtmrs
		bad := [][]byte{good[0], wrongOf(good[1]), good[2], good[3]}
		rt := func(l [][]byte) fv { return fv{state: 2, arg: join(l), val: bl(l)} }
		cs := base("flag/matching", "-rtmrs matching")
		cs.rtmrs, cs.want = rt(good), 0
		add(cs)
		cs = base("flag/mismatching", "-rtmrs with one register off")
		cs.rtmrs, cs.want = rt(bad), 4
		add(cs)
		cs = base("flag/malformed", "-rtmrs with bad hex")
		cs.rtmrs, cs.want = badFlag("00,zz,11,22"), 1
		add(cs)
		cs = base("flag/malformed", "-rtmrs with three registers")
		cs.rtmrs, cs.want = rt(good[:3]), 1
		add(cs)
		cs = base("flag/malformed", "-rtmrs with a 47-byte register")
		cs.rtmrs, cs.want = rt([][]byte{good[0], good[1][:47], good[2], good[3]}), 1
		add(cs)
		for _, kind := range kinds {
			cfg := emptyCfg()
			cfg.Policy.TdQuoteBodyPolicy.Rtmrs = bad
			cs = base("override/flag-good", kind+" config rtmrs off, flag matching")
			cs.cfgKind, cs.cfg, cs.rtmrs, cs.want = kind, cfg, rt(good), 0
			add(cs)
			cfg = emptyCfg()
			cfg.Policy.TdQuoteBodyPolicy.Rtmrs = good
			cs = base("override/flag-bad", kind+" config rtmrs matching, flag off")
			cs.cfgKind, cs.cfg, cs.rtmrs, cs.want = kind, cfg, rt(bad), 4
			add(cs)
			cfg = emptyCfg()
			cfg.Policy.TdQuoteBodyPolicy.AnyMrTd = [][]byte{wrongOf(body.MrTd)}
			cs = base("config/mismatching", kind+" config any_mr_td without the quote's MR_TD")
			cs.cfgKind, cs.cfg, cs.want = kind, cfg, 4
			add(cs)
			cfg = emptyCfg()
			cfg.Policy.TdQuoteBodyPolicy.AnyMrTd = [][]byte{wrongOf(body.MrTd), body.MrTd}
			cs = base("config/matching", kind+" config any_mr_td with the quote's MR_TD")
			cs.cfgKind, cs.cfg, cs.want = kind, cfg, 0
			add(cs)
		}
	}
	// ---- config shapes: absent sub-messages ----
	for _, kind := range kinds {
		shapes := []struct {
			name string
			cfg  *ccpb.Config
			want int
		}{
			{"empty config", &ccpb.Config{}, 2}, // no root given anywhere: but base() gives the root by flag -> handled below
			{"only root_of_trust", &ccpb.Config{RootOfTrust: &ccpb.RootOfTrust{}}, 0},
			{"policy without sub-messages", &ccpb.Config{Policy: &ccpb.Policy{}}, 0},
			{"policy with header_policy only", &ccpb.Config{Policy: &ccpb.Policy{HeaderPolicy: &ccpb.HeaderPolicy{QeVendorId: hdr.QeVendorId}}}, 0},
			{"policy with td_quote_body_policy only", &ccpb.Config{Policy: &ccpb.Policy{TdQuoteBodyPolicy: &ccpb.TDQuoteBodyPolicy{MrTd: body.MrTd}}}, 0},
			{"policy with td_quote_body_policy only, mismatching", &ccpb.Config{Policy: &ccpb.Policy{TdQuoteBodyPolicy: &ccpb.TDQuoteBodyPolicy{MrTd: wrongOf(body.MrTd)}}}, 4},
			{"policy with header_policy only, mismatching", &ccpb.Config{Policy: &ccpb.Policy{HeaderPolicy: &ccpb.HeaderPolicy{QeVendorId: wrongOf(hdr.QeVendorId)}}}, 4},
		}
		for _, sh := range shapes {
			cs := base("config/shape", kind+" "+sh.name)
			cs.cfgKind, cs.cfg = kind, sh.cfg
			cs.want = sh.want
			if sh.name == "empty config" {
				cs.want = 0
			}
			cs.wantWhy = "absent sub-messages mean no constraint; the tool must not crash"
			add(cs)
			// the same with a flag for a field of the absent sub-message
			cs = base("config/shape", kind+" "+sh.name+" plus -mr_td and -qe_vendor_id flags")
			cs.cfgKind, cs.cfg = kind, sh.cfg
			cs.bytesF[5], cs.bytesF[0] = hexFlag(body.MrTd), hexFlag(hdr.QeVendorId)
			cs.want = 0
			add(cs)
		}
	}
	for _, k := range []string{"missing", "garbage", "textbad"} {
		cs := base("usage/config", k+" config file")
		cs.cfgKind = k
		cs.want, cs.wantWhy = 1, "malformed config"
		add(cs)
	}
	// ---- root of trust: flag over config ----
	for _, kind := range kinds {
		mk := func(paths []c19Bundle, inline []c19Bundle, crl, col bool) (*ccpb.Config, []c19Bundle, []c19Bundle) {
			cfg := emptyCfg()
			for _, b := range paths {
				cfg.RootOfTrust.CabundlePaths = append(cfg.RootOfTrust.CabundlePaths, b.path)
			}
			for _, b := range inline {
				cfg.RootOfTrust.Cabundles = append(cfg.RootOfTrust.Cabundles, string(b.content))
			}
			cfg.RootOfTrust.CheckCrl, cfg.RootOfTrust.GetCollateral = crl, col
			return cfg, paths, inline
		}
		noFlagRoots := func(cs *c19Case) { cs.roots, cs.rootsB = fv{}, nil }
		cs := base("rot/config", kind+" config names the own root, no flag")
		noFlagRoots(cs)
		cs.cfgKind = kind
		cs.cfg, cs.cfgPathsB, cs.cfgInline = mk([]c19Bundle{ownRoot}, nil, false, false)
		cs.want = 0
		add(cs)
		cs = base("rot/config", kind+" config gives the own root inline, no flag")
		noFlagRoots(cs)
		cs.cfgKind = kind
		cs.cfg, cs.cfgPathsB, cs.cfgInline = mk(nil, []c19Bundle{ownRoot}, false, false)
		cs.want = 0
		add(cs)
		cs = base("rot/override", kind+" config names the own root, flag names the foreign root")
		cs.roots, cs.rootsB = rootsFlag(foreignRoot)
		cs.cfgKind = kind
		cs.cfg, cs.cfgPathsB, cs.cfgInline = mk([]c19Bundle{ownRoot}, nil, false, false)
		cs.want, cs.wantWhy = 2, "the -trusted_roots flag overrides the config's cabundle_paths"
		add(cs)
		cs = base("rot/override", kind+" config names the foreign root, flag names the own root")
		cs.cfgKind = kind
		cs.cfg, cs.cfgPathsB, cs.cfgInline = mk([]c19Bundle{foreignRoot}, nil, false, false)
		cs.want, cs.wantWhy = 0, "the -trusted_roots flag overrides the config's cabundle_paths"
		add(cs)
		cs = base("rot/config", kind+" config names a garbage bundle, no flag")
		noFlagRoots(cs)
		cs.cfgKind = kind
		cs.cfg, cs.cfgPathsB, cs.cfgInline = mk([]c19Bundle{garbageBundle}, nil, false, false)
		cs.want, cs.wantWhy = 1, "malformed config (CA bundle without certificates)"
		add(cs)
		cs = base("rot/config", kind+" config names a missing bundle, no flag")
		noFlagRoots(cs)
		cs.cfgKind = kind
		cs.cfg, cs.cfgPathsB, cs.cfgInline = mk([]c19Bundle{missingBundle}, nil, false, false)
		cs.want = 1
		add(cs)
		cs = base("rot/config", kind+" config: inline garbage")
		cs.cfgKind = kind
		cs.cfg, cs.cfgPathsB, cs.cfgInline = mk(nil, []c19Bundle{garbageBundle}, false, false)
		cs.want = 1
		add(cs)
		// booleans
		cs = base("rot/bool", kind+" config check_crl without get_collateral")
		cs.cfgKind = kind
		cs.cfg, cs.cfgPathsB, cs.cfgInline = mk(nil, nil, true, false)
		cs.want, cs.wantWhy = 1, "check_crl needs get_collateral"
		add(cs)
		cs = base("rot/bool", kind+" config check_crl+get_collateral, flag -get_collateral=false")
		cs.cfgKind = kind
		cs.cfg, cs.cfgPathsB, cs.cfgInline = mk(nil, nil, true, true)
		cs.getCol = boolFlag(false)
		cs.want = 1
		add(cs)
		cs = base("rot/bool", kind+" config check_crl+get_collateral, flags switch both off")
		cs.cfgKind = kind
		cs.cfg, cs.cfgPathsB, cs.cfgInline = mk(nil, nil, true, true)
		cs.getCol, cs.checkCrl = boolFlag(false), boolFlag(false)
		cs.want, cs.wantWhy = 0, "flags override the config's booleans"
		add(cs)
		cs = base("network", kind+" config get_collateral, no flag: network unreachable")
		cs.cfgKind = kind
		cs.cfg, cs.cfgPathsB, cs.cfgInline = mk(nil, nil, false, true)
		cs.want, cs.wantWhy = 3, "collateral cannot be downloaded"
		add(cs)
	}
	// ---- root flag malformed ----
	{
		cs := base("flag/malformed", "-trusted_roots names a missing file")
		cs.roots, cs.rootsB = fv{state: 1}, nil
		cs.rootsArg = missingBundle.path
		cs.want = 1
		add(cs)
		cs = base("flag/malformed", "-trusted_roots names a directory")
		cs.roots, cs.rootsB = fv{state: 1}, nil
		cs.rootsArg = dirPath
		cs.want = 1
		add(cs)
		cs = base("flag/malformed", "-trusted_roots names a garbage file")
		cs.roots, cs.rootsB = rootsFlag(garbageBundle)
		cs.want = 1
		add(cs)
		cs = base("flag/malformed", "-trusted_roots own root plus a missing file")
		cs.roots, cs.rootsB = fv{state: 1}, nil
		cs.rootsArg = ownRoot.path + "," + missingBundle.path
		cs.want = 1
		add(cs)
	}
	// ---- booleans by flag ----
	for _, m := range []string{"maybe", "1", "TRUE", "yes"} {
		cs := base("flag/malformed", "-check_crl="+m)
		cs.checkCrl = badFlag(m)
		cs.want = 1
		add(cs)
		cs = base("flag/malformed", "-get_collateral="+m)
		cs.getCol = badFlag(m)
		cs.want = 1
		add(cs)
	}
	{
		cs := base("rot/bool", "-check_crl=true without -get_collateral")
		cs.checkCrl = boolFlag(true)
		cs.want = 1
		add(cs)
		cs = base("ok", "-check_crl=false -get_collateral=false")
		cs.checkCrl, cs.getCol = boolFlag(false), boolFlag(false)
		cs.want = 0
		add(cs)
	}
	// ---- network ----
	{
		cs := base("network", "-get_collateral=true, network unreachable")
		cs.getCol = boolFlag(true)
		cs.want, cs.wantWhy = 3, "collateral cannot be downloaded"
		add(cs)
		cs = base("network", "-get_collateral=true -check_crl=true, network unreachable")
		cs.getCol, cs.checkCrl = boolFlag(true), boolFlag(true)
		cs.want = 3
		add(cs)
		cs = base("network", "-get_collateral=true with the recorded getter: no recorded answer for this platform")
		cs.getCol, cs.getter = boolFlag(true), "local"
		cs.want, cs.wantWhy = 3, "collateral cannot be downloaded"
		add(cs)
		cs = base("network", "forged quote and unreachable network")
		cs.getCol = boolFlag(true)
		cs.mutRaw = func(raw []byte) []byte { raw[700] ^= 1; return raw }
		add(cs)
		cs = base("network", "policy mismatch and unreachable network")
		cs.getCol = boolFlag(true)
		cs.bytesF[5] = hexFlag(wrongOf(body.MrTd))
		cs.want = 3
		add(cs)
		// a network of our own (loopback HTTPS proxy): every endpoint served, down, or answering something else
		if e.net != nil {
			tcbURL, qeURL, pckURL, rootURL := w.URLs()
			full := func() map[string]world.Resp { return cloneResp(w.Getter().Resp) }
			type nv struct {
				name string
				mut  func(m map[string]world.Resp)
				crl  bool
				want int
			}
			down := func(u string) func(m map[string]world.Resp) {
				return func(m map[string]world.Resp) { m[u] = world.Resp{Err: fmt.Errorf("down")} }
			}
			vs := []nv{
				{"every endpoint served, collateral only", nil, false, 0},
				{"every endpoint served, collateral and CRLs", nil, true, 0},
				{"TCB info endpoint down", down(tcbURL), true, 3},
				{"QE identity endpoint down", down(qeURL), true, 3},
				{"PCK CRL endpoint down", down(pckURL), true, 3},
				{"Root CA CRL endpoint down", down(rootURL), true, 3},
				{"Root CA CRL endpoint down, revocation off", down(rootURL), false, 0},
				{"TCB info signature broken", func(m map[string]world.Resp) {
					x := m[tcbURL]
					x.Body = []byte(strings.Replace(string(x.Body), `"signature":"`, `"signature":"00`, 1))
					m[tcbURL] = x
				}, true, 2},
				{"QE identity from another PKI", func(m map[string]world.Resp) { m[qeURL] = foreign.Getter().Resp[qeURL] }, false, 2},
				{"PCK CRL is not a CRL", func(m map[string]world.Resp) { x := m[pckURL]; x.Body = []byte("zz"); m[pckURL] = x }, true, -1},
				{"TCB info body is HTML", func(m map[string]world.Resp) { x := m[tcbURL]; x.Body = []byte("<html>"); m[tcbURL] = x }, false, -1},
			}
			for _, v := range vs {
				cs = base("network/proxy", v.name)
				cs.net = full()
				if v.mut != nil {
					v.mut(cs.net)
				}
				cs.getCol = boolFlag(true)
				if v.crl {
					cs.checkCrl = boolFlag(true)
				}
				cs.want, cs.wantWhy = v.want, "a document that cannot be downloaded is a network failure (3), a downloaded but unauthentic one a verification failure (2)"
				add(cs)
			}
			cs = base("network/proxy", "collateral fine, policy mismatching")
			cs.net = full()
			cs.getCol, cs.checkCrl = boolFlag(true), boolFlag(true)
			cs.bytesF[5] = hexFlag(wrongOf(body.MrTd))
			cs.want = 4
			add(cs)
			cs = base("network/proxy", "leaf certificate revoked")
			cs.net = full()
			if crl, err := world.MakeCRL(r, w.PKI.Inter, []*big.Int{w.PKI.Leaf.Cert.SerialNumber}, now.Add(-time.Hour), now.Add(time.Hour), 7); err == nil {
				x := cs.net[pckURL]
				x.Body = crl
				cs.net[pckURL] = x
			}
			cs.getCol, cs.checkCrl = boolFlag(true), boolFlag(true)
			cs.want = 2
			add(cs)
		}
		// the Intel sample quote
		cs = &c19Case{class: "sample", desc: "Intel sample quote, embedded root, no collateral", w: w, sample: true, want: 0,
			wantWhy: "the genuine sample quote verifies under the embedded root while its PCK certificates are in date"}
		add(cs)
		cs = &c19Case{class: "sample", desc: "Intel sample quote, recorded collateral (expired by now)", w: w, sample: true, getter: "local", want: 2,
			wantWhy: "the recorded collateral is out of date"}
		cs.getCol = boolFlag(true)
		add(cs)
		cs = &c19Case{class: "sample", desc: "Intel sample quote, recorded collateral and CRLs", w: w, sample: true, getter: "local", want: -1}
		cs.getCol, cs.checkCrl = boolFlag(true), boolFlag(true)
		add(cs)
		cs = &c19Case{class: "sample", desc: "Intel sample quote under a foreign root", w: w, sample: true, want: 2}
		cs.roots, cs.rootsB = rootsFlag(foreignRoot)
		add(cs)
	}
	// ---- precedence of failures ----
	{
		cs := base("mixed", "forged quote and mismatching policy: verification comes first")
		cs.mutRaw = func(raw []byte) []byte { raw[700] ^= 1; return raw }
		cs.bytesF[5] = hexFlag(wrongOf(body.MrTd))
		cs.want = 2
		add(cs)
		cs = base("mixed", "malformed flag and forged quote")
		cs.mutRaw = func(raw []byte) []byte { raw[700] ^= 1; return raw }
		cs.bytesF[5] = badFlag("zz")
		cs.want = 1
		add(cs)
		cs = base("mixed", "malformed policy in the config and a forged quote")
		cfg := emptyCfg()
		cfg.Policy.TdQuoteBodyPolicy.MrTd = make([]byte, 47)
		cs.cfgKind, cs.cfg = "bin", cfg
		cs.mutRaw = func(raw []byte) []byte { raw[700] ^= 1; return raw }
		add(cs)
	}
	// ---- random mixtures (thorough: more) ----
	for k := 0; k < c.Scale(40, 600); k++ {
		cs := base("random", fmt.Sprintf("random mixture %d", k))
		if r.Intn(2) == 0 {
			cs.cfgKind = kinds[r.Intn(2)]
			cfg := &ccpb.Config{}
			if r.Intn(4) != 0 {
				cfg.Policy = &ccpb.Policy{}
				if r.Intn(3) != 0 {
					cfg.Policy.HeaderPolicy = &ccpb.HeaderPolicy{}
				}
				if r.Intn(3) != 0 {
					cfg.Policy.TdQuoteBodyPolicy = &ccpb.TDQuoteBodyPolicy{}
				}
				for i := range c19ByteFlags {
					if (i == 0 && cfg.Policy.HeaderPolicy == nil) || (i > 0 && cfg.Policy.TdQuoteBodyPolicy == nil) {
						continue
					}
					switch r.Intn(6) {
					case 0:
						v := fieldVals[i]
						if i == 1 {
							v = make([]byte, 16)
						}
						setCfgBytes(cfg.Policy, i, v)
					case 1:
						setCfgBytes(cfg.Policy, i, mismatch(i))
					}
				}
			}
			if r.Intn(3) == 0 {
				cfg.RootOfTrust = &ccpb.RootOfTrust{}
				if r.Intn(2) == 0 {
					cfg.RootOfTrust.CabundlePaths = []string{foreignRoot.path}
					cs.cfgPathsB = []c19Bundle{foreignRoot}
				}
				if r.Intn(3) == 0 {
					cfg.RootOfTrust.Cabundles = []string{string(ownRoot.content)}
					cs.cfgInline = []c19Bundle{ownRoot}
				}
			}
			cs.cfg = cfg
		}
		for i := range c19ByteFlags {
			switch r.Intn(8) {
			case 0:
				v := fieldVals[i]
				if i == 1 {
					v = make([]byte, 16)
				}
				cs.bytesF[i] = hexFlag(v)
			case 1:
				cs.bytesF[i] = hexFlag(mismatch(i))
			}
		}
		switch r.Intn(5) {
		case 0:
			cs.roots, cs.rootsB = fv{}, nil
		case 1:
			cs.roots, cs.rootsB = rootsFlag(foreignRoot)
		}
		if r.Intn(6) == 0 {
			cs.inform = []string{"proto", "textproto"}[r.Intn(2)]
		}
		if r.Intn(6) == 0 {
			cs.mutRaw = func(raw []byte) []byte { raw[640+r.Intn(60)] ^= 1; return raw }
		}
		add(cs)
	}

	// ---- run everything (the tool runs are independent processes) ----
	results := make([]*c19Result, len(cases))
	sem := make(chan struct{}, 12)
	var wg sync.WaitGroup
	for i, cs := range cases {
		if !c.Wanted() && c.ReplayID >= 0 {
			// replay mode: ids are positional, every case is still constructed
		}
		i, cs := i, cs
		wg.Add(1)
		sem <- struct{}{}
		go func() {
			defer wg.Done()
			defer func() { <-sem }()
			results[i] = e.exec(cs)
		}()
	}
	wg.Wait()
	for _, res := range results {
		cs := res.cs
		code := uint64(res.code)
		crashed := strings.Contains(res.stderr, "panic:") || strings.Contains(res.stderr, "goroutine 1 [") || res.code < 0 || res.code > 4
		gt := ""
		switch {
		case crashed:
			code = 100
			gt = fmt.Sprintf("the tool crashed (exit status %d): %s", res.code, lastN(strings.TrimSpace(res.stderr), 300))
		case cs.want >= 0 && res.code != cs.want:
			gt = fmt.Sprintf("exit status %d, expected %d (%s); stderr: %s", res.code, cs.want, cs.wantWhy, lastN(strings.TrimSpace(res.stderr), 200))
		}
		c.Add(&core.Case{Class: cs.class, Desc: fmt.Sprintf("%s -> exit %d (%.1fs)", cs.desc, res.code, res.took.Seconds()), Entry: "tool", Input: res.input,
			Impl: core.Ls(core.A(code)), GT: gt, NonTrivial: res.code != 1 || cs.want == 1, Project: func(m core.Sexp) core.Sexp { return core.Ls(m.Nth(0)) }})
	}
}
