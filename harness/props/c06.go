package props

import (
	"crypto/x509"
	"fmt"
	"strings"
	"time"

	"github.com/google/go-tdx-guest/verify"

	"verifharness/core"
	"verifharness/world"
)

// c06 roles: which artefact carries the near expiry, and which entry of the time set judges it
var c06Roles = []struct {
	name  string
	field int // 0 PckCertChain, 1 TcbInfo, 2 QeIdentity, 3 PckCrl, 4 RootCaCrl
	crl   bool
}{
	{"pck.root", 0, false}, {"pck.inter", 0, false}, {"pck.leaf", 0, false},
	{"tcb.signer", 1, false}, {"tcb.root", 1, false}, {"tcbinfo.nextUpdate", 1, false},
	{"qe.signer", 2, false}, {"qe.root", 2, false}, {"qeidentity.nextUpdate", 2, false},
	{"crl.signer", 3, true}, {"crl.root", 3, true}, {"pckcrl.nextUpdate", 3, true},
	{"rootcrl.nextUpdate", 4, true},
	// one short-lived root certificate delivered in both the TCB-Info and the QE-Identity issuer chain
	// (as Intel's are): it is judged at the TCB-Info time for one response and at the QE-Identity time for the other
	{"shared.root@tcbinfo", 1, false}, {"shared.root@qeidentity", 2, false},
	// one short-lived intermediate (root) certificate that is both in the quote's chain and in the PCK CRL's
	// issuer chain (as with Intel's service): judged at the PCK-chain time in one place and at the PCK-CRL time in the other
	{"shared.inter@pckcrl", 3, true}, {"shared.inter@pckchain", 0, false},
	{"shared.qroot@pckcrl", 3, true}, {"shared.qroot@pckchain", 0, false},
}

func C06(c *core.Ctx) {
	c.Rule = "worlds in which exactly one artefact (each of the nine certificate roles - PCK chain root / intermediate / leaf, signer and root of the TCB-Info, QE-Identity and PCK-CRL issuer chains, realised as re-issued certificates with the same key and name - the two JSON documents, the two CRLs; one short-lived root delivered in both the TCB-Info and the QE-Identity chain; and one short-lived intermediate / root that is both in the quote's chain and in the PCK-CRL issuer chain) expires at E while everything else lives for years; the entry of the time set that judges it at E-1s, E, E+1s, E+1d, E+400d with the four other entries pairwise distinct and either all before E or all after E; not-yet-valid path certificates; sub-second offsets around E (E-1ms, E+1ms, E+500ms, E+999ms; oracle only); zero time entries (x509 wall-clock fallback) and a nil time set. Ground truth: accepted iff every artefact is unexpired at its own entry. non-trivial = every case; distinct = distinct (role, time set)"
	r := c.Rng
	day := 24 * time.Hour
	far := baseTime.Add(5 * 365 * day)
	start := baseTime.Add(-365 * day)
	E := baseTime.Add(100 * day).Truncate(time.Second)
	reps := c.Scale(1, 6)
	for rep := 0; rep < reps; rep++ {
		ext := world.RandomSGXExt(r)
		for ri, role := range c06Roles {
			win := map[string][2]time.Time{"root": {start, far}, "inter": {start, far}, "leaf": {start, far}, "tcbsigner": {start, far}}
			pki, err := world.NewPKI(r, world.PKIOpts{Now: baseTime, Ext: ext, Windows: win})
			if err != nil {
				panic(err)
			}
			reissue := func(orig *world.Cert, parent *world.Cert, ca bool, cn string, notAfter time.Time, sgx []byte, dp []string) *world.Cert {
				spec := world.CertSpec{CN: cn, NotBefore: start, NotAfter: notAfter, IsCA: ca, CRLDP: dp, SGXExtDER: sgx}
				var p *world.Cert
				if parent != nil {
					p = parent
				}
				cert, err := world.MakeCert(r, spec, orig.Key, p)
				if err != nil {
					panic(err)
				}
				return cert
			}
			rootDP := []string{pki.Opts.RootCRLURL}
			shortRoot := func() *world.Cert { return reissue(pki.Root, nil, true, "Intel SGX Root CA", E, nil, rootDP) }
			// the chain carried by the quote
			qRoot, qInter, qLeaf := pki.Root, pki.Inter, pki.Leaf
			switch role.name {
			case "pck.root", "shared.qroot@pckcrl", "shared.qroot@pckchain":
				qRoot = shortRoot()
			case "pck.inter", "shared.inter@pckcrl", "shared.inter@pckchain":
				qInter = reissue(pki.Inter, pki.Root, true, "Intel SGX PCK Platform CA", E, nil, rootDP)
			case "pck.leaf":
				qLeaf = reissue(pki.Leaf, pki.Inter, false, "Intel SGX PCK Certificate", E, ext.DER(), pki.Leaf.Cert.CRLDistributionPoints)
			}
			f := world.DefaultQuoteFields(r)
			f.ChainPEM = append(append(append([]byte{}, qLeaf.PEM()...), qInter.PEM()...), qRoot.PEM()...)
			w, err := world.BuildWorld(r, baseTime, pki, f)
			if err != nil {
				panic(err)
			}
			w.TcbInfo.NextUpdate, w.QeIdentity.NextUpdate = far, far
			if role.name == "tcbinfo.nextUpdate" {
				w.TcbInfo.NextUpdate = E
			}
			if role.name == "qeidentity.nextUpdate" {
				w.QeIdentity.NextUpdate = E
			}
			w.Seal(r)
			tSigner, tRoot, qSigner, qRootC, cSigner, cRoot := pki.TcbSigner, pki.Root, pki.TcbSigner, pki.Root, pki.Inter, pki.Root
			shortSigner := func() *world.Cert {
				return reissue(pki.TcbSigner, pki.Root, false, "Intel SGX TCB Signing", E, nil, rootDP)
			}
			switch role.name {
			case "tcb.signer":
				tSigner = shortSigner()
			case "tcb.root":
				tRoot = shortRoot()
			case "qe.signer":
				qSigner = shortSigner()
			case "qe.root":
				qRootC = shortRoot()
			case "crl.signer":
				cSigner = reissue(pki.Inter, pki.Root, true, "Intel SGX PCK Platform CA", E, nil, rootDP)
			case "crl.root":
				cRoot = shortRoot()
			case "shared.root@tcbinfo", "shared.root@qeidentity":
				sr := shortRoot()
				tRoot, qRootC = sr, sr
			case "shared.inter@pckcrl", "shared.inter@pckchain":
				cSigner = qInter // the very certificate of the quote's chain
			case "shared.qroot@pckcrl", "shared.qroot@pckchain":
				cRoot = qRoot
			}
			w.TcbInfoHeader = map[string][]string{world.TcbInfoIssuerChainHeader: {pki.IssuerChainHeader(tSigner, tRoot)}}
			w.QeIdentityHeader = map[string][]string{world.QeIdentityIssuerChainHeader: {pki.IssuerChainHeader(qSigner, qRootC)}}
			w.PckCrlHeader = map[string][]string{world.PckCrlIssuerChainHeader: {pki.IssuerChainHeader(cSigner, cRoot)}}
			pckNext, rootNext := far, far
			if role.name == "pckcrl.nextUpdate" {
				pckNext = E
			}
			if role.name == "rootcrl.nextUpdate" {
				rootNext = E
			}
			w.PckCrl, _ = world.MakeCRL(r, pki.Inter, nil, start, pckNext, 3)
			w.RootCrl, _ = world.MakeCRL(r, pki.Root, nil, start, rootNext, 3)

			try := func(desc string, ts *verify.TimeSet, crl bool, want int) {
				sc := scenarioFromWorld(w, true, crl)
				sc.Now = ts
				sc.Wall = time.Now()
				if ts != nil {
					sc.Wall = time.Now()
				}
				sc.Roots = []*x509.Certificate{pki.Root.Cert}
				runScenario(c, "role-"+role.name, desc, sc, func(cl uint64, err error) string {
					switch {
					case want == 1 && cl != 0:
						return "nothing is expired at its own verification time, yet rejected: " + err.Error()
					case want == 0 && cl == 0:
						return "accepted although " + role.name + " is expired at its verification time"
					}
					return ""
				}, true)
			}
			for _, own := range []struct {
				name string
				t    time.Time
				ok   bool
			}{{"E-1s", E.Add(-time.Second), true}, {"E", E, true}, {"E+1s", E.Add(time.Second), false}, {"E+1d", E.Add(day), false}, {"E+400d", E.Add(400 * day), false}} {
				for _, others := range []string{"before", "after"} {
					var t [5]time.Time
					for i := range t {
						off := time.Duration(1+i) * time.Hour * 7
						if others == "before" {
							t[i] = E.Add(-50*day - off)
						} else {
							t[i] = E.Add(10*day + off)
						}
					}
					t[role.field] = own.t
					ts := &verify.TimeSet{PckCertChain: t[0], TcbInfo: t[1], QeIdentity: t[2], PckCrl: t[3], RootCaCrl: t[4]}
					crl := role.crl || (ri+rep)%2 == 0
					// artefacts only looked at with revocation checking do not matter without it
					want := boolInt(own.ok)
					if strings.HasPrefix(role.name, "shared.root") && others == "after" {
						want = 0 // the other response carries the same root and is judged after its end
					}
					// a certificate that sits both in the quote's chain and in the PCK CRL's issuer chain is
					// judged at the PCK-chain time (always) and at the PCK-CRL time (with revocation checking)
					sharedChain := strings.HasPrefix(role.name, "shared.inter") || strings.HasPrefix(role.name, "shared.qroot")
					sharedWant := func(crl bool) int { return boolInt(!t[0].After(E) && !(crl && t[3].After(E))) }
					if sharedChain {
						want = sharedWant(crl)
					}
					try(fmt.Sprintf("own=%s others=%s crl=%v", own.name, others, crl), ts, crl, want)
					if role.crl {
						off := 1
						if sharedChain {
							off = sharedWant(false)
						}
						try(fmt.Sprintf("own=%s others=%s revocation off (artefact not consulted)", own.name, others), ts, false, off)
					}
				}
			}
			// sub-second: a verification time inside the first second after the end is after the end
			// (the model's clock counts whole seconds, so these are judged by the oracle alone)
			for _, d := range []time.Duration{-time.Millisecond, time.Millisecond, 500 * time.Millisecond, 999 * time.Millisecond} {
				var t [5]time.Time
				for i := range t {
					t[i] = E.Add(-50*day - time.Duration(1+i)*7*time.Hour)
				}
				t[role.field] = E.Add(d)
				ts := &verify.TimeSet{PckCertChain: t[0], TcbInfo: t[1], QeIdentity: t[2], PckCrl: t[3], RootCaCrl: t[4]}
				sc := scenarioFromWorld(w, true, true)
				sc.Now, sc.Wall = ts, time.Now()
				sc.Roots = []*x509.Certificate{pki.Root.Cert}
				want := d < 0
				runScenarioImplOnly(c, "subsecond-"+role.name, fmt.Sprintf("own=E%+v others before", d), sc, func(cl uint64, err error) string {
					if want && cl != 0 {
						return "nothing is expired at its own verification time, yet rejected: " + err.Error()
					}
					if !want && cl == 0 {
						return fmt.Sprintf("accepted although %s ended %v before its verification time", role.name, d)
					}
					return ""
				})
			}
			if ri == 0 {
				// zero entries / nil time set: the wall clock (inside every window of this world except E roles)
				now := time.Now()
				z := time.Time{}
				okNow := boolInt(now.Before(E))
				try("nil time set (wall clock)", nil, false, okNow)
				try("zero PckCertChain entry, others wall clock", &verify.TimeSet{PckCertChain: z, TcbInfo: now, QeIdentity: now, PckCrl: now, RootCaCrl: now}, false, -1)
				try("all entries zero", &verify.TimeSet{}, false, -1)
			}
		}
		// not yet valid path certificates
		{
			late := baseTime.Add(50 * day)
			win := map[string][2]time.Time{"root": {start, far}, "inter": {start, far}, "leaf": {late, far}, "tcbsigner": {late, far}}
			pki, _ := world.NewPKI(r, world.PKIOpts{Now: baseTime, Ext: ext, Windows: win})
			w, _ := world.BuildWorld(r, baseTime, pki, world.DefaultQuoteFields(r))
			w.TcbInfo.NextUpdate, w.QeIdentity.NextUpdate = far, far
			w.Seal(r)
			for _, d := range []time.Duration{-time.Second, 0, time.Second} {
				t := late.Add(d)
				for lvl := 0; lvl < 2; lvl++ {
					sc := scenarioFromWorld(w, lvl == 1, false)
					sc.Now = &verify.TimeSet{PckCertChain: t, TcbInfo: t, QeIdentity: t, PckCrl: t, RootCaCrl: t}
					want := d >= 0
					runScenario(c, "not-yet-valid", fmt.Sprintf("leaf and TCB signer valid from T, verified at T%+v, collateral=%v", d, lvl == 1), sc, func(cl uint64, err error) string {
						if want && cl != 0 {
							return "inside every validity period, yet rejected: " + err.Error()
						}
						if !want && cl == 0 {
							return "accepted before the leaf's validity period begins"
						}
						return ""
					}, true)
				}
			}
		}
	}
}
