package props

import (
	"crypto/x509"
	"encoding/hex"
	"encoding/json"
	"errors"
	"fmt"
	"math/big"
	"strings"
	"time"

	"github.com/google/go-tdx-guest/pcs"
	"github.com/google/go-tdx-guest/verify"
	"github.com/google/go-tdx-guest/verify/trust"

	"verifharness/core"
	"verifharness/world"
)

// faultyWorlds returns worlds with one injected fault each (plus honest ones).
type namedScenario struct {
	name string
	w    *world.World
	mut  func(sc *Scenario)
}

func c12Scenarios(c *core.Ctx) []namedScenario {
	r := c.Rng
	var out []namedScenario
	mk := func(proc bool) *world.World {
		pki, err := world.NewPKI(r, world.PKIOpts{Now: baseTime, Ext: world.RandomSGXExt(r), Processor: proc})
		if err != nil {
			panic(err)
		}
		w, err := world.BuildWorld(r, baseTime, pki, world.DefaultQuoteFields(r))
		if err != nil {
			panic(err)
		}
		return w
	}
	for i := 0; i < c.Scale(3, 40); i++ {
		w := mk(false)
		tcbURL, qeURL, pckURL, rootURL := w.URLs()
		out = append(out, namedScenario{"honest", w, nil})
		out = append(out, namedScenario{"bit flipped in body", w, func(sc *Scenario) { sc.Raw[100] ^= 4 }})
		out = append(out, namedScenario{"foreign trusted root", w, func(sc *Scenario) { sc.Roots = []*x509.Certificate{mk(false).PKI.Root.Cert} }})
		out = append(out, namedScenario{"tcb info endpoint down", w, func(sc *Scenario) { sc.Resp[tcbURL] = world.Resp{Err: errors.New("down")} }})
		out = append(out, namedScenario{"qe identity endpoint down", w, func(sc *Scenario) { sc.Resp[qeURL] = world.Resp{Err: errors.New("down")} }})
		out = append(out, namedScenario{"pck crl endpoint down", w, func(sc *Scenario) { sc.Resp[pckURL] = world.Resp{Err: errors.New("down")} }})
		out = append(out, namedScenario{"root crl endpoint down", w, func(sc *Scenario) { sc.Resp[rootURL] = world.Resp{Err: errors.New("down")} }})
		out = append(out, namedScenario{"pck crl garbage", w, func(sc *Scenario) { x := sc.Resp[pckURL]; x.Body = []byte("zz"); sc.Resp[pckURL] = x }})
		out = append(out, namedScenario{"tcb info body not JSON", w, func(sc *Scenario) { x := sc.Resp[tcbURL]; x.Body = []byte("<html>"); sc.Resp[tcbURL] = x }})
		out = append(out, namedScenario{"tcb info signature broken", w, func(sc *Scenario) {
			x := sc.Resp[tcbURL]
			x.Body = []byte(strings.Replace(string(x.Body), `"signature":"`, `"signature":"00`, 1))
			sc.Resp[tcbURL] = x
		}})
		// responses with a member removed (a decoder that merges into what an earlier call left
		// behind would keep the earlier value)
		dropMember := func(url, member string) func(sc *Scenario) {
			return func(sc *Scenario) {
				x := sc.Resp[url]
				var m map[string]json.RawMessage
				if json.Unmarshal(x.Body, &m) == nil {
					delete(m, member)
					x.Body, _ = json.Marshal(m)
				}
				sc.Resp[url] = x
			}
		}
		out = append(out, namedScenario{"tcb info without its signature member", w, dropMember(tcbURL, "signature")})
		out = append(out, namedScenario{"tcb info without its tcbInfo member", w, dropMember(tcbURL, "tcbInfo")})
		out = append(out, namedScenario{"qe identity without its signature member", w, dropMember(qeURL, "signature")})
		out = append(out, namedScenario{"qe identity without its enclaveIdentity member", w, dropMember(qeURL, "enclaveIdentity")})
		out = append(out, namedScenario{"tcb info body {}", w, func(sc *Scenario) { x := sc.Resp[tcbURL]; x.Body = []byte("{}"); sc.Resp[tcbURL] = x }})
		out = append(out, namedScenario{"qe identity body {}", w, func(sc *Scenario) { x := sc.Resp[qeURL]; x.Body = []byte("{}"); sc.Resp[qeURL] = x }})
		out = append(out, namedScenario{"leaf revoked", w, func(sc *Scenario) {
			crl, _ := world.MakeCRL(r, w.PKI.Inter, nil, baseTime.Add(-time.Hour), baseTime.Add(time.Hour), 9)
			_ = crl
			b, _ := world.MakeCRL(r, w.PKI.Inter, append([]*big.Int{}, w.PKI.Leaf.Cert.SerialNumber), baseTime.Add(-time.Hour), baseTime.Add(time.Hour), 9)
			x := sc.Resp[pckURL]
			x.Body = b
			sc.Resp[pckURL] = x
		}})
		out = append(out, namedScenario{"everything expired", w, func(sc *Scenario) {
			t := baseTime.AddDate(3, 0, 0)
			sc.Now = &verify.TimeSet{PckCertChain: t, TcbInfo: t, QeIdentity: t, PckCrl: t, RootCaCrl: t}
		}})
		wp := mk(true)
		out = append(out, namedScenario{"processor-CA platform", wp, nil})
		// OutOfDate platform
		wo := mk(false)
		for j := range wo.TcbInfo.Levels {
			wo.TcbInfo.Levels[j].Status = "OutOfDate"
		}
		wo.Seal(r)
		out = append(out, namedScenario{"platform OutOfDate", wo, nil})
		// inconsistent chains: the PCK leaf is issued by one CA, the quote ships the other CA's
		// certificate as intermediate (rejected either way; the CRL request must still name the
		// CA that issued the leaf)
		for _, leafProc := range []bool{true, false} {
			ext := world.RandomSGXExt(r)
			pl, err1 := world.NewPKI(r, world.PKIOpts{Now: baseTime, Ext: ext, Processor: leafProc})
			po, err2 := world.NewPKI(r, world.PKIOpts{Now: baseTime, Ext: ext, Processor: !leafProc})
			if err1 != nil || err2 != nil {
				panic("pki")
			}
			f := world.DefaultQuoteFields(r)
			f.ChainPEM = append(append(append([]byte{}, pl.Leaf.PEM()...), po.Inter.PEM()...), pl.Root.PEM()...)
			wi, err := world.BuildWorld(r, baseTime, pl, f)
			if err != nil {
				panic(err)
			}
			out = append(out, namedScenario{fmt.Sprintf("leaf issued by the %s CA, the other CA's certificate shipped as intermediate", pl.CA()), wi, nil})
		}
		// the quote embeds a root certificate that has expired; the trusted pool holds a re-issue of it
		// (same key and name, later NotAfter), so path building succeeds and only the library's own
		// expiry check of the embedded chain can reject
		{
			pki, err := world.NewPKI(r, world.PKIOpts{Now: baseTime, Ext: world.RandomSGXExt(r)})
			if err != nil {
				panic(err)
			}
			for _, v := range []struct {
				name     string
				notAfter time.Time
			}{{"embedded root expired, re-issued root trusted", baseTime.Add(-time.Hour)}, {"embedded root in date, re-issued root trusted (control)", baseTime.AddDate(1, 0, 0)}} {
				old, err := world.MakeCert(r, world.CertSpec{CN: "Intel SGX Root CA", NotBefore: baseTime.AddDate(-2, 0, 0), NotAfter: v.notAfter, IsCA: true,
					CRLDP: []string{pki.Opts.RootCRLURL}}, pki.Root.Key, nil)
				if err != nil {
					panic(err)
				}
				f := world.DefaultQuoteFields(r)
				f.ChainPEM = append(append(append([]byte{}, pki.Leaf.PEM()...), pki.Inter.PEM()...), old.PEM()...)
				we, err := world.BuildWorld(r, baseTime, pki, f)
				if err != nil {
					panic(err)
				}
				out = append(out, namedScenario{v.name, we, nil})
			}
		}
	}
	return out
}

func C12(c *core.Ctx) {
	c.Rule = "every generated world (honest and with one injected fault: mutated quote, foreign root, each endpoint down / garbage, broken collateral signature, collateral responses with a member removed or empty, revoked leaf, expired, OutOfDate platform, Processor-CA chain, an expired embedded root whose re-issue is trusted, a leaf shipped with the other CA's certificate) under all four option combinations with a recording getter: verdict monotonicity, no fetch without collateral, CRL endpoints only with revocation, TCB-Info URL names the FMSPC and PCK-CRL URL the issuing CA, fetch failures reported as typed errors; every faulty world right after the honest call about the same platform through one options value; histories of 2..5 verifications (different quotes and settings, nil and explicit time sets, certificates expiring between calls) through one shared options value compared with fresh options. non-trivial = every case; distinct = distinct (world, fault, options) / histories"
	scs := c12Scenarios(c)
	combos := []struct{ col, crl bool }{{false, false}, {true, false}, {true, true}, {false, true}}
	for _, ns := range scs {
		var verdicts [4]uint64
		ran := false
		for ci, cb := range combos {
			if !c.Wanted() {
				c.Add(&core.Case{Class: "combo", SkipModel: true, Impl: core.Ls()})
				continue
			}
			ran = true
			sc := scenarioFromWorld(ns.w, cb.col, cb.crl)
			sc.Resp = cloneResp(sc.Resp)
			if ns.mut != nil {
				ns.mut(sc)
			}
			obs, err, pan, _ := sc.run()
			verdicts[ci] = obs.Nth(0).N
			gt := ""
			tcbURL, qeURL, pckURL, rootURL := ns.w.URLs()
			var urls []string
			for _, u := range obs.Nth(1).L {
				urls = append(urls, string(u.B))
			}
			fm := hex.EncodeToString(ns.w.PKI.Opts.Ext.FMSPC[:])
			switch {
			case pan != nil:
				gt = fmt.Sprintf("verification panicked: %v", pan)
			case !cb.col && len(urls) != 0:
				gt = "fetched " + urls[0] + " although collateral checking is off"
			}
			for _, u := range urls {
				switch u {
				case tcbURL:
					if u != pcs.TcbInfoURL(fm) {
						gt = "TCB info URL does not name the FMSPC of the PCK certificate"
					}
				case qeURL:
				case pckURL, rootURL:
					if !cb.crl {
						gt = "CRL endpoint " + u + " contacted although revocation checking is off"
					}
					if u == pckURL && !strings.Contains(u, "ca="+ns.w.PKI.CA()+"&") {
						gt = "PCK CRL URL does not name the issuing CA"
					}
				default:
					gt = "unexpected URL requested: " + u
				}
			}
			// failures to download are typed
			if gt == "" && err != nil && cb.col && strings.Contains(ns.name, "endpoint down") {
				down := map[string]bool{"tcb info endpoint down": true, "qe identity endpoint down": true}
				if cb.crl {
					down["pck crl endpoint down"], down["root crl endpoint down"] = true, true
				}
				if down[ns.name] {
					var e1 verify.CRLUnavailableErr
					var e2 *trust.AttestationRecreationErr
					if !errors.As(err, &e1) && !errors.As(err, &e2) {
						gt = "a failure to download collateral / CRL is not reported as a distinguishable error type: " + err.Error()
					}
				}
			}
			c.Add(&core.Case{Class: "combo", Desc: fmt.Sprintf("%s; collateral=%v crl=%v", ns.name, cb.col, cb.crl), Entry: "ver",
				Input: sc.modelInput(), Impl: obs, GT: gt, NonTrivial: true})
		}
		if ran && c.ReplayID < 0 {
			// more checking never accepts more: (col,crl) accepted => (col) accepted => () accepted
			gt := ""
			if verdicts[2] == 0 && verdicts[1] != 0 {
				gt = "accepted with collateral+revocation but rejected with collateral alone"
			}
			if verdicts[1] == 0 && verdicts[0] != 0 {
				gt = "accepted with collateral but rejected with signature and chain checking alone"
			}
			if verdicts[3] == 0 {
				gt = "revocation checking without collateral fetching succeeded"
			}
			c.Add(&core.Case{Class: "monotonicity", Desc: ns.name + fmt.Sprintf(" verdicts=%v", verdicts), SkipModel: true, Impl: core.Ls(), GT: gt, NonTrivial: true})
		}
	}
	c12Histories(c, scs)
}

// histories: a shared *verify.Options across several verifications vs fresh options.
func c12Histories(c *core.Ctx, scs []namedScenario) {
	r := c.Rng
	// every faulty scenario right after the honest call about the same platform, on one options value
	for _, ns := range scs {
		if ns.mut == nil {
			continue
		}
		for _, crl := range []bool{false, true} {
			if !c.Wanted() {
				c.Add(&core.Case{Class: "history-pair", SkipModel: true, Impl: core.Ls()})
				continue
			}
			run := func(o *verify.Options, mut func(*Scenario)) (error, any) {
				sc := scenarioFromWorld(ns.w, true, crl)
				sc.Resp = cloneResp(sc.Resp)
				if mut != nil {
					mut(sc)
				}
				o.GetCollateral, o.CheckRevocations, o.Getter = true, crl, &world.Getter{Resp: sc.Resp}
				pool := x509.NewCertPool()
				for _, cert := range sc.Roots {
					pool.AddCert(cert)
				}
				o.TrustedRoots = pool
				n := *sc.Now
				o.Now = &n
				var err error
				pan := safely(func() { err = verify.RawTdxQuote(sc.Raw, o) })
				return err, pan
			}
			shared := &verify.Options{}
			e0, p0 := run(shared, nil)
			es, ps := run(shared, ns.mut)
			ef, pf := run(&verify.Options{}, ns.mut)
			gt := ""
			switch {
			case p0 != nil || ps != nil || pf != nil:
				gt = "panic in a two-call history"
			case (es == nil) != (ef == nil):
				gt = fmt.Sprintf("%s: verdict through an options value that first verified the honest quote of the same platform (%v) differs from a fresh one (%v)", ns.name, es, ef)
			}
			c.Add(&core.Case{Class: "history-pair", Desc: fmt.Sprintf("honest (%v) then %s, crl=%v: shared=%v fresh=%v", e0 == nil, ns.name, crl, es == nil, ef == nil), SkipModel: true, Impl: core.Ls(), GT: gt, NonTrivial: true})
		}
	}
	n := c.Scale(25, 400)
	for h := 0; h < n; h++ {
		if !c.Wanted() {
			c.Add(&core.Case{Class: "history", SkipModel: true, Impl: core.Ls()})
			continue
		}
		k := 2 + r.Intn(4)
		shared := &verify.Options{}
		gt := ""
		desc := ""
		for step := 0; step < k && gt == ""; step++ {
			ns := scs[r.Intn(len(scs))]
			col, crl := r.Intn(2) == 0, false
			if col {
				crl = r.Intn(2) == 0
			}
			sc := scenarioFromWorld(ns.w, col, crl)
			sc.Resp = cloneResp(sc.Resp)
			if ns.mut != nil {
				ns.mut(sc)
			}
			useNil := r.Intn(3) == 0
			// same settings on the shared value and on a fresh one
			apply := func(o *verify.Options) *world.Getter {
				g := &world.Getter{Resp: sc.Resp}
				o.GetCollateral, o.CheckRevocations, o.Getter = col, crl, g
				pool := x509.NewCertPool()
				for _, cert := range sc.Roots {
					pool.AddCert(cert)
				}
				o.TrustedRoots = pool
				if useNil {
					o.Now = nil
				} else {
					n := *sc.Now
					o.Now = &n
				}
				return g
			}
			fresh := &verify.Options{}
			gs := apply(shared)
			gf := apply(fresh)
			var es, ef error
			ps := safely(func() { es = verify.RawTdxQuote(sc.Raw, shared) })
			pf := safely(func() { ef = verify.RawTdxQuote(sc.Raw, fresh) })
			desc += fmt.Sprintf("[%s col=%v crl=%v nilNow=%v -> shared=%v fresh=%v] ", ns.name, col, crl, useNil, es == nil, ef == nil)
			if ps != nil || pf != nil {
				gt = fmt.Sprintf("panic in history step %d", step)
			} else if (es == nil) != (ef == nil) {
				gt = fmt.Sprintf("step %d: verdict through the re-used options value (%v) differs from a fresh one (%v)", step, es, ef)
			} else if strings.Join(gs.Calls, ",") != strings.Join(gf.Calls, ",") {
				gt = fmt.Sprintf("step %d: the re-used options value fetched different URLs", step)
			}
			if useNil && shared.Now != nil {
				gt = fmt.Sprintf("step %d: verification wrote a time set into the caller's options (later calls are pinned to it)", step)
			}
		}
		c.Add(&core.Case{Class: "history", Desc: desc, SkipModel: true, Impl: core.Ls(), GT: gt, NonTrivial: true})
	}
	// the pinned-clock history made explicit: a chain that expires between two calls
	for rep := 0; rep < c.Scale(1, 3); rep++ {
		if !c.Wanted() {
			c.Add(&core.Case{Class: "history-expiry", SkipModel: true, Impl: core.Ls()})
			continue
		}
		now := time.Now()
		win := map[string][2]time.Time{"root": {now.Add(-time.Hour), now.Add(24 * time.Hour)}, "inter": {now.Add(-time.Hour), now.Add(24 * time.Hour)},
			"leaf": {now.Add(-time.Hour), now.Add(1500 * time.Millisecond)}, "tcbsigner": {now.Add(-time.Hour), now.Add(24 * time.Hour)}}
		pki, _ := world.NewPKI(r, world.PKIOpts{Now: now, Ext: world.RandomSGXExt(r), Windows: win})
		w, _ := world.BuildWorld(r, now, pki, world.DefaultQuoteFields(r))
		shared := &verify.Options{TrustedRoots: pki.RootPool()}
		e1 := verify.RawTdxQuote(w.Quote.Raw, shared)
		time.Sleep(2600 * time.Millisecond)
		e2 := verify.RawTdxQuote(w.Quote.Raw, shared)
		e3 := verify.RawTdxQuote(w.Quote.Raw, &verify.Options{TrustedRoots: pki.RootPool()})
		gt := ""
		if e1 != nil {
			gt = "" // machine too slow for this probe; nothing to conclude
		} else if (e2 == nil) != (e3 == nil) {
			gt = fmt.Sprintf("a leaf that expired between two calls is still accepted through the re-used options value (shared: %v, fresh: %v)", e2, e3)
		}
		c.Add(&core.Case{Class: "history-expiry", Desc: fmt.Sprintf("first=%v second(shared)=%v second(fresh)=%v", e1 == nil, e2 == nil, e3 == nil), SkipModel: true, Impl: core.Ls(), GT: gt, NonTrivial: e1 == nil})
	}
}
