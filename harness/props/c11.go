package props

import (
	"fmt"
	"time"

	"verifharness/core"
	"verifharness/world"
)

var baseTime = time.Date(2026, 3, 1, 12, 0, 0, 0, time.UTC)

// runScenario executes one scenario on both sides and records the case.
func runScenario(c *core.Ctx, class, desc string, sc *Scenario, gt func(errClass uint64, err error) string, nontrivial bool) {
	if !c.Wanted() {
		c.Add(&core.Case{Class: class, SkipModel: true, Impl: core.Ls()})
		return
	}
	obs, err, pan, _ := sc.run()
	g := ""
	if pan != nil {
		g = fmt.Sprintf("verification panicked: %v", pan)
	} else if gt != nil {
		g = gt(obs.Nth(0).N, err)
	}
	c.Count("verdict", fmt.Sprintf("%d", obs.Nth(0).N))
	c.Add(&core.Case{Class: class, Desc: desc, Entry: "ver", Input: sc.modelInput(), Impl: obs, GT: g, NonTrivial: nontrivial})
}

func C11(c *core.Ctx) {
	c.Rule = "honest worlds from the generator (fresh PKI and keys, random field contents, SVN vectors, matching UpToDate level, CRLs listing unrelated serials) at the three option levels; QE auth data lengths 0..65535, trailing NUL, extra bytes; verification times anywhere inside all validity windows; the Intel sample quote under the embedded root. non-trivial = every case (each is a full verification); distinct = distinct worlds x level"
	r := c.Rng
	levels := []struct {
		name     string
		col, crl bool
	}{{"signature+chain", false, false}, {"collateral", true, false}, {"collateral+crl", true, true}}
	n := c.Scale(40, 1500)
	for i := 0; i < n; i++ {
		w, err := world.HonestWorld(r, baseTime)
		if err != nil {
			panic(err)
		}
		for _, l := range levels {
			sc := scenarioFromWorld(w, l.col, l.crl)
			runScenario(c, "honest/"+l.name, fmt.Sprintf("world %d", i), sc, func(cl uint64, err error) string {
				if cl != 0 {
					return fmt.Sprintf("honest in-date quote rejected at level %s: %v", l.name, err)
				}
				return ""
			}, true)
		}
	}
}
