package props

import (
	"crypto/ecdsa"
	"encoding/hex"
	"fmt"
	"math/big"
	"math/rand"
	"time"

	"github.com/google/go-tdx-guest/verify"

	"verifharness/core"
	"verifharness/world"
)

var baseTime = time.Date(2026, 3, 1, 12, 0, 0, 0, time.UTC)

// runScenario executes one scenario on both sides and records the case.
func runScenario(c *core.Ctx, class, desc string, sc *Scenario, gt func(errClass uint64, err error) string, nontrivial bool) {
	if !c.Wanted() {
		c.Add(&core.Case{Class: class, SkipModel: true, Impl: core.Ls()})
		return
	}
	obs, err, pan, _ := sc.run()
	g := ""
	if pan != nil {
		g = fmt.Sprintf("verification panicked: %v", pan)
	} else if gt != nil {
		g = gt(obs.Nth(0).N, err)
	}
	// every case of C11, every fourth elsewhere, is repeated on an Options value that has a history
	c.HistoryTick++
	if g == "" && pan == nil && (c.Prop == "C11" || c.HistoryTick%4 == 0) {
		g = sc.historyGT(obs.Nth(0).N, c.Prop != "C11")
		c.Count("history", "compared")
	}
	c.Count("verdict", fmt.Sprintf("%d", obs.Nth(0).N))
	c.Add(&core.Case{Class: class, Desc: desc, Entry: "ver", Input: sc.modelInput(), Impl: obs, GT: g, NonTrivial: nontrivial})
}

// runScenarioImplOnly: as runScenario, but judged by the ground-truth oracle alone (used where the
// model cannot represent the input, e.g. sub-second verification times: its clock counts seconds).
func runScenarioImplOnly(c *core.Ctx, class, desc string, sc *Scenario, gt func(errClass uint64, err error) string) {
	if !c.Wanted() {
		c.Add(&core.Case{Class: class, SkipModel: true, Impl: core.Ls()})
		return
	}
	obs, err, pan, _ := sc.run()
	g := ""
	if pan != nil {
		g = fmt.Sprintf("verification panicked: %v", pan)
	} else if gt != nil {
		g = gt(obs.Nth(0).N, err)
	}
	c.Add(&core.Case{Class: class, Desc: desc, SkipModel: true, Impl: obs, GT: g, NonTrivial: true})
}

func C11(c *core.Ctx) {
	c.Rule = "honest worlds from the generator (fresh PKI and keys, random field contents, SVN vectors, TDX module versions 0..255, matching UpToDate level, CRLs listing unrelated serials, some with their issuer name encoded as UTF8String) at the three option levels; QE auth data lengths 0..65535, trailing NUL, extra bytes; signatures with leading zero bytes in r / s; pairwise distinct verification times anywhere inside all validity windows; worlds whose documents, CRLs and PCK leaf end at staggered dates with each time-set entry one day before the end of its own artefact; the Intel sample quote under the embedded root at its reference time; every case repeated on an Options value that was first used for an honest collateral+revocation call about another platform (the verdict must not change). non-trivial = every case (each is a full verification); distinct = distinct worlds x level"
	r := c.Rng
	levels := []struct {
		name     string
		col, crl bool
	}{{"signature+chain", false, false}, {"collateral", true, false}, {"collateral+crl", true, true}}
	n := c.Scale(120, 3000)
	authLens := []int{0, 1, 32, 33, 700, 5000, 65535}
	for i := 0; i < n; i++ {
		pki, err := world.NewPKI(r, world.PKIOpts{Now: baseTime, Ext: world.RandomSGXExt(r)})
		if err != nil {
			panic(err)
		}
		f := world.DefaultQuoteFields(r)
		// TDX module version: zero, small, and values whose hex and decimal renderings differ
		f.TeeTcbSvn[1] = []byte{0, 0, 1, 9, 10, 0x12, 0x63, 0xff, byte(r.Intn(256))}[r.Intn(9)]
		switch i % 6 {
		case 1:
			f.AuthData = core.RandBytes(r, authLens[r.Intn(len(authLens))])
		case 2:
			f.TrailingNUL = true
		case 3:
			f.ExtraBytes = core.RandBytes(r, 1+r.Intn(64))
		case 4:
			f.AuthData, f.TrailingNUL, f.ExtraBytes = nil, true, []byte{0}
		}
		w, err := world.BuildWorld(r, baseTime, pki, f)
		if err != nil {
			panic(err)
		}
		desc := fmt.Sprintf("world %d (tee[1]=%#x auth=%d nul=%v extra=%d)", i, f.TeeTcbSvn[1], len(f.AuthData), f.TrailingNUL, len(f.ExtraBytes))
		if i%5 == 0 {
			// signatures whose r or s has leading zero bytes (DER integers must be minimal)
			c11LeadingZeroSigs(r, w)
			desc += " leading-zero signatures"
		}
		if i%7 == 3 {
			// CRLs whose issuer name is written with UTF8String values (another encoding of the same name)
			day := 24 * time.Hour
			if b, err := world.MakeCRLUTF8(r, pki.Inter, []*big.Int{big.NewInt(int64(1000 + i))}, baseTime.Add(-2*day), baseTime.Add(60*day), 5); err == nil {
				w.PckCrl = b
			}
			if b, err := world.MakeCRLUTF8(r, pki.Root, []*big.Int{big.NewInt(int64(2000 + i))}, baseTime.Add(-2*day), baseTime.Add(60*day), 5); err == nil {
				w.RootCrl = b
			}
			desc += " CRL issuer names as UTF8String"
		}
		// a verification time anywhere inside every validity window
		tm := baseTime.Add(time.Duration(r.Int63n(int64(29*24*time.Hour))) - 12*time.Hour)
		for _, l := range levels {
			sc := scenarioFromWorld(w, l.col, l.crl)
			sc.Now = &verify.TimeSet{PckCertChain: tm, TcbInfo: tm.Add(time.Minute), QeIdentity: tm.Add(2 * time.Minute), PckCrl: tm.Add(3 * time.Minute), RootCaCrl: tm.Add(4 * time.Minute)}
			l := l
			runScenario(c, "honest/"+l.name, desc, sc, func(cl uint64, err error) string {
				if cl != 0 {
					return fmt.Sprintf("honest in-date quote rejected at level %s: %v", l.name, err)
				}
				return ""
			}, true)
		}
	}
	// staggered validity: every document and the PCK leaf expire at a date of their own, and each
	// entry of the time set sits one day before the end of its own artefact -- hence after the end
	// of some of the others. Honest and in date at its own time: must be accepted.
	day := 24 * time.Hour
	for i := 0; i < c.Scale(12, 200); i++ {
		perm := r.Perm(5)
		end := func(k int) time.Time { return baseTime.Add(time.Duration(10*(perm[k]+1)) * day) }
		eTcb, eQe, ePckCrl, eRootCrl, eLeaf := end(0), end(1), end(2), end(3), end(4)
		far := baseTime.Add(5 * 365 * day)
		start := baseTime.Add(-365 * day)
		pki, err := world.NewPKI(r, world.PKIOpts{Now: baseTime, Ext: world.RandomSGXExt(r),
			Windows: map[string][2]time.Time{"root": {start, far}, "inter": {start, far}, "tcbsigner": {start, far}, "leaf": {start, eLeaf}}})
		if err != nil {
			panic(err)
		}
		w, err := world.BuildWorld(r, baseTime, pki, world.DefaultQuoteFields(r))
		if err != nil {
			panic(err)
		}
		w.TcbInfo.NextUpdate, w.QeIdentity.NextUpdate = eTcb, eQe
		w.Seal(r)
		w.PckCrl, _ = world.MakeCRL(r, pki.Inter, nil, start, ePckCrl, 3)
		w.RootCrl, _ = world.MakeCRL(r, pki.Root, nil, start, eRootCrl, 3)
		for _, l := range levels {
			sc := scenarioFromWorld(w, l.col, l.crl)
			sc.Now = &verify.TimeSet{PckCertChain: eLeaf.Add(-day), TcbInfo: eTcb.Add(-day), QeIdentity: eQe.Add(-day), PckCrl: ePckCrl.Add(-day), RootCaCrl: eRootCrl.Add(-day)}
			l := l
			runScenario(c, "honest-staggered/"+l.name, fmt.Sprintf("staggered world %d (ends after 10d x tcb=%d qe=%d pckcrl=%d rootcrl=%d leaf=%d)", i, perm[0]+1, perm[1]+1, perm[2]+1, perm[3]+1, perm[4]+1), sc,
				func(cl uint64, err error) string {
					if cl != 0 {
						return fmt.Sprintf("honest quote with every artefact in date at its own verification time rejected at level %s: %v", l.name, err)
					}
					return ""
				}, true)
		}
	}
	// the genuine Intel sample quote under the embedded root at its reference time
	if raw, err := readRepoFile("testing/testdata/tdx_prod_quote_SPR_E4.dat"); err == nil {
		ref := time.Date(2023, time.July, 1, 1, 0, 0, 0, time.UTC)
		sc := &Scenario{Raw: raw, Now: &verify.TimeSet{PckCertChain: ref, TcbInfo: ref, QeIdentity: ref, PckCrl: ref, RootCaCrl: ref}, Resp: map[string]world.Resp{}, Wall: ref}
		runScenario(c, "intel-sample", "Intel sample quote, embedded root, reference time", sc, func(cl uint64, err error) string {
			if cl != 0 {
				return "the genuine Intel sample quote is rejected under the embedded root at its reference time: " + err.Error()
			}
			return ""
		}, true)
	}
}

// c11LeadingZeroSigs re-signs the quote, the QE report and both collateral
// documents until r or s of each signature starts with a zero byte followed by
// a byte below 0x80 (every such signature is as honest as any other).
func c11LeadingZeroSigs(r *rand.Rand, w *world.World) {
	want := func(sig []byte) bool {
		return (sig[0] == 0 && sig[1] < 0x80) || (sig[32] == 0 && sig[33] < 0x80)
	}
	signUntil := func(key *ecdsa.PrivateKey, msg []byte) []byte {
		for i := 0; i < 4000; i++ {
			if s := world.SignRaw(r, key, msg); want(s) {
				return s
			}
		}
		return world.SignRaw(r, key, msg)
	}
	f := w.Fields
	hdr, body := world.SerializeHeader(f), world.SerializeBody(f)
	att := w.Quote.AttKey
	attPub := world.RawPub(&att.PublicKey)
	sig := signUntil(att, append(append([]byte{}, hdr...), body...))
	rp := world.SerializeQeReport(f, world.QeReportData(attPub, f.AuthData))
	qsig := signUntil(w.PKI.Leaf.Key, rp)
	chain := append([]byte{}, f.ChainPEM...)
	if f.TrailingNUL {
		chain = append(chain, 0)
	}
	w.Quote.Raw = world.Assemble(hdr, body, sig, attPub, rp, qsig, f.AuthData, chain, f.ExtraBytes)
	ti, qi := w.TcbInfo.JSON(), w.QeIdentity.JSON()
	w.TcbInfoBody = world.Envelope("tcbInfo", ti, hex.EncodeToString(signUntil(w.PKI.TcbSigner.Key, ti)))
	w.QeIdentityBody = world.Envelope("enclaveIdentity", qi, hex.EncodeToString(signUntil(w.PKI.TcbSigner.Key, qi)))
}
