package props

import (
	"bytes"
	"errors"
	"fmt"

	"github.com/google/go-tdx-guest/client"
	labi "github.com/google/go-tdx-guest/client/linuxabi"

	"verifharness/core"
)

// ---- scripted device / provider ------------------------------------------

type devScript struct {
	repErr   bool
	repCode  uint64
	repWrite []byte
	qErr     bool
	qCode    uint64
	qStatus  uint64
	qOutLen  uint32
	qWrite   []byte
	qLength  uint64 // non-zero: the device stores this into the request's Length field
}

type scriptedDevice struct {
	s    devScript
	reqs []core.Sexp
	bad  string
}

func (d *scriptedDevice) Open(string) error { return nil }
func (d *scriptedDevice) Close() error      { return nil }
func (d *scriptedDevice) Ioctl(command uintptr, argument any) (uintptr, error) {
	switch r := argument.(type) {
	case *labi.TdxReportReq:
		if command != labi.IocTdxGetReport {
			d.bad = "report request with wrong ioctl command"
		}
		d.reqs = append(d.reqs, core.Ls(core.A(0), core.Bs(append([]byte{}, r.ReportData[:]...))))
		if d.s.repErr {
			return 0, errors.New("scripted report failure")
		}
		copy(r.TdReport[:], d.s.repWrite)
		return uintptr(d.s.repCode), nil
	case *labi.TdxQuoteReq:
		if command != labi.IocTdxGetQuote {
			d.bad = "quote request with wrong ioctl command"
		}
		h, ok := r.Buffer.(*labi.TdxQuoteHdr)
		if !ok {
			d.bad = "quote request buffer of unexpected type"
			return 0, errors.New("bad buffer")
		}
		rest := true
		for _, b := range h.Data[labi.TdReportSize:] {
			if b != 0 {
				rest = false
			}
		}
		d.reqs = append(d.reqs, core.Ls(core.A(1), core.A(h.Version), core.A(h.Status), core.A(uint64(h.InLen)),
			core.A(uint64(h.OutLen)), core.A(r.Length), core.Bs(append([]byte{}, h.Data[:labi.TdReportSize]...)), core.Bool(rest)))
		if d.s.qErr {
			return 0, errors.New("scripted quote failure")
		}
		copy(h.Data[:], d.s.qWrite)
		h.Status = d.s.qStatus
		h.OutLen = d.s.qOutLen
		if d.s.qLength != 0 {
			r.Length = d.s.qLength
		}
		return uintptr(d.s.qCode), nil
	}
	d.bad = fmt.Sprintf("unexpected request type %T", argument)
	return 0, errors.New("unexpected request")
}

type provScript struct {
	supported bool
	data      []byte
	err       bool
}

type scriptedProvider struct {
	s     provScript
	calls int
	rd    []byte
}

func (p *scriptedProvider) IsSupported() error {
	if p.s.supported {
		return nil
	}
	return errors.New("not supported")
}
func (p *scriptedProvider) GetRawQuote(rd [64]byte) ([]uint8, error) {
	p.calls++
	p.rd = append([]byte{}, rd[:]...)
	if p.s.err {
		return p.s.data, errors.New("scripted provider failure")
	}
	return p.s.data, nil
}

// a value that satisfies both interfaces: the type switch must pick Device
type bothDevProv struct {
	*scriptedDevice
	p *scriptedProvider
}

func (b bothDevProv) IsSupported() error                       { return b.p.IsSupported() }
func (b bothDevProv) GetRawQuote(rd [64]byte) ([]uint8, error) { return b.p.GetRawQuote(rd) }

func devSexp(s devScript) core.Sexp {
	return core.Ls(core.Bool(s.repErr), core.A(s.repCode), core.Bs(s.repWrite), core.Bool(s.qErr), core.A(s.qCode),
		core.A(s.qStatus), core.A(uint64(s.qOutLen)), core.Bs(s.qWrite))
}
func provSexp(s provScript) core.Sexp {
	return core.Ls(core.Bool(s.supported), core.Bs(s.data), core.Bool(s.err))
}

func callRaw(qp any, rd [64]byte) (out []byte, err error, panicked any) {
	defer func() {
		if r := recover(); r != nil {
			panicked = r
		}
	}()
	out, err = client.GetRawQuote(qp, rd)
	return
}

// expected outcome of the device path straight from the property text
func c15Expect(s devScript, rd []byte) (ok bool, data []byte, reqs int) {
	if s.repErr || s.repCode != 0 {
		return false, nil, 1
	}
	if s.qErr || s.qCode != 0 || s.qStatus != 0 || s.qOutLen == 0 || s.qOutLen > labi.ReqBufSize {
		return false, nil, 2
	}
	buf := make([]byte, labi.ReqBufSize)
	td := make([]byte, labi.TdReportSize)
	copy(td, s.repWrite)
	copy(buf, td)
	copy(buf, s.qWrite)
	return true, buf[:s.qOutLen], 2
}

func C15(c *core.Ctx) {
	c.Rule = "scripted client.Device / client.QuoteProvider behaviours: grid of (report err/code) x (quote err/code) x status x OutLen x written-bytes, plus devices that write a larger Length back, consecutive calls (an earlier result must survive a later call), random scripts and provider behaviours; non-trivial = the quote request was reached (report request succeeded) or a provider was consulted; distinct = distinct (script, report data)"
	r := c.Rng
	statuses := []uint64{0, labi.GetQuoteInFlight, labi.GetQuoteError, labi.GetQuoteServiceUnavailable, 5, 1 << 40}
	writeLens := []int{0, 7, 1024, 1025, 5000, labi.ReqBufSize}
	// the bytes returned by an earlier call belong to the caller: a later call must not change them
	var prevOut, prevCopy []byte
	c.Lookahead = 1 // (replay: the case before the recorded one runs too)
	defer func() { c.Lookahead = 0 }()
	addDev := func(class string, s devScript, both *provScript) {
		if !c.Wanted() {
			c.Add(&core.Case{Class: class, SkipModel: true, Impl: core.Ls()})
			return
		}
		var rd [64]byte
		r.Read(rd[:])
		dev := &scriptedDevice{s: s}
		var qp any = dev
		var qps core.Sexp
		if both != nil {
			qp = bothDevProv{dev, &scriptedProvider{s: *both}}
			qps = core.Ls(core.A(2), devSexp(s), provSexp(*both))
		} else {
			qps = core.Ls(core.A(0), devSexp(s))
		}
		out, err, pan := callRaw(qp, rd)
		var impl core.Sexp
		gt := ""
		if pan != nil {
			impl = core.Ls(core.A(2))
			gt = fmt.Sprintf("client.GetRawQuote panicked: %v", pan)
		} else {
			impl = core.Ls(core.A(0), core.Bs(out), core.Bool(err != nil), core.Ls(dev.reqs...))
			ok, want, nreq := c15Expect(s, rd[:])
			switch {
			case dev.bad != "":
				gt = dev.bad
			case ok && err != nil:
				gt = "device succeeded but GetRawQuote returned an error: " + err.Error()
			case ok && !bytes.Equal(out, want):
				gt = "returned bytes differ from the first OutLen bytes of the device buffer"
			case !ok && err == nil:
				gt = fmt.Sprintf("device outcome is a failure (status=%#x outlen=%d repErr=%v repCode=%d qErr=%v qCode=%d) but GetRawQuote returned %d bytes and no error",
					s.qStatus, s.qOutLen, s.repErr, s.repCode, s.qErr, s.qCode, len(out))
			case !ok && len(out) != 0:
				gt = "error returned together with data"
			case len(dev.reqs) != nreq:
				gt = fmt.Sprintf("device saw %d requests, expected %d", len(dev.reqs), nreq)
			}
			if gt == "" && len(dev.reqs) >= 1 && !bytes.Equal(dev.reqs[0].Nth(1).B, rd[:]) {
				gt = "report data was not relayed unchanged"
			}
			if gt == "" && prevOut != nil && !bytes.Equal(prevOut, prevCopy) {
				gt = "the quote returned by the previous call changed when this one was fetched (the result aliases memory the client re-uses)"
			}
			if err == nil && len(out) > 0 {
				prevOut, prevCopy = out, append([]byte{}, out...)
			}
			if gt == "" && len(dev.reqs) == 2 {
				td := make([]byte, labi.TdReportSize)
				copy(td, s.repWrite)
				q := dev.reqs[1]
				if !bytes.Equal(q.Nth(6).B, td) || q.Nth(7).N != 1 || q.Nth(1).N != 1 || q.Nth(2).N != 0 ||
					q.Nth(3).N != labi.TdReportSize || q.Nth(4).N != 0 || q.Nth(5).N != labi.ReqBufSize {
					gt = "quote request does not carry the TD report / header as specified"
				}
			}
		}
		c.Count("status", fmt.Sprintf("%#x", s.qStatus))
		c.Count("outlen", fmt.Sprintf("%d", s.qOutLen))
		c.Add(&core.Case{Class: class, Desc: fmt.Sprintf("rep(err=%v,code=%d,w=%d) quote(err=%v,code=%d,status=%#x,outlen=%d,w=%d)", s.repErr, s.repCode, len(s.repWrite), s.qErr, s.qCode, s.qStatus, s.qOutLen, len(s.qWrite)),
			Input: core.Ls(qps, core.Bs(rd[:])), Impl: impl, GT: gt, NonTrivial: !s.repErr && s.repCode == 0})
	}
	// full grid
	for _, repErr := range []bool{false, true} {
		for _, repCode := range []uint64{0, 1, 9} {
			if repErr || repCode != 0 {
				addDev("report-fails", devScript{repErr: repErr, repCode: repCode, repWrite: core.RandBytes(r, 1024), qWrite: core.RandBytes(r, 100), qOutLen: 100}, nil)
				continue
			}
			for _, qErr := range []bool{false, true} {
				for _, qCode := range []uint64{0, 8} {
					for _, st := range statuses {
						for _, wl := range writeLens {
							outlens := []uint32{0, 1, uint32(wl), 1024, labi.ReqBufSize, labi.ReqBufSize + 1, 1<<32 - 1}
							for _, ol := range outlens {
								if (qErr || qCode != 0) && (st != 0 || ol != 1) {
									continue
								}
								class := "grid-ok"
								switch {
								case qErr || qCode != 0:
									class = "quote-request-fails"
								case st != 0:
									class = "status-nonzero"
								case ol == 0 || ol > labi.ReqBufSize:
									class = "outlen-invalid"
								}
								addDev(class, devScript{repWrite: core.RandBytes(r, 1024), qErr: qErr, qCode: qCode, qStatus: st, qOutLen: ol, qWrite: core.RandBytes(r, wl)}, nil)
							}
						}
					}
				}
			}
		}
	}
	// a device that writes a larger Length back into the request and reports an OutLen up to it
	for _, ln := range []uint64{labi.ReqBufSize + 24, 1 << 20, 1 << 32} {
		for _, ol := range []uint32{labi.ReqBufSize, labi.ReqBufSize + 1, labi.ReqBufSize + 24, uint32(ln)} {
			addDev("length-written-back", devScript{repWrite: core.RandBytes(r, 1024), qOutLen: ol, qWrite: core.RandBytes(r, 500), qLength: ln}, nil)
		}
	}
	// two good quotes in a row (the first must survive the second)
	for i := 0; i < 4; i++ {
		addDev("consecutive", devScript{repWrite: core.RandBytes(r, 1024), qOutLen: 5000, qWrite: bytes.Repeat([]byte{byte(3 + i)}, 5000)}, nil)
	}
	// random scripts
	for i := 0; i < c.Scale(300, 5000); i++ {
		s := devScript{repWrite: core.RandBytes(r, r.Intn(1025)), qWrite: core.RandBytes(r, r.Intn(labi.ReqBufSize+1))}
		if r.Intn(10) == 0 {
			s.repErr = true
		}
		if r.Intn(10) == 0 {
			s.repCode = uint64(r.Intn(10))
		}
		if r.Intn(10) == 0 {
			s.qErr = true
		}
		if r.Intn(10) == 0 {
			s.qCode = uint64(r.Intn(10))
		}
		if r.Intn(4) == 0 {
			s.qStatus = statuses[r.Intn(len(statuses))]
		}
		switch r.Intn(6) {
		case 0:
			s.qOutLen = uint32(r.Intn(3))
		case 1:
			s.qOutLen = uint32(labi.ReqBufSize - 1 + r.Intn(3))
		case 2:
			s.qOutLen = r.Uint32()
		default:
			s.qOutLen = uint32(r.Intn(labi.ReqBufSize + 1))
		}
		var both *provScript
		if r.Intn(8) == 0 {
			both = &provScript{supported: r.Intn(2) == 0, data: core.RandBytes(r, 20), err: r.Intn(2) == 0}
		}
		addDev("random", s, both)
	}
	// providers
	for i := 0; i < c.Scale(60, 600); i++ {
		ps := provScript{supported: i%3 != 0, err: i%4 == 1}
		if i%5 != 0 {
			ps.data = core.RandBytes(r, r.Intn(3000))
		}
		if !c.Wanted() {
			c.Add(&core.Case{Class: "provider", SkipModel: true, Impl: core.Ls()})
			continue
		}
		var rd [64]byte
		r.Read(rd[:])
		p := &scriptedProvider{s: ps}
		out, err, pan := callRaw(p, rd)
		gt := ""
		var impl core.Sexp
		if pan != nil {
			impl = core.Ls(core.A(2))
			gt = fmt.Sprintf("client.GetRawQuote panicked: %v", pan)
		} else {
			impl = core.Ls(core.A(0), core.Bs(out), core.Bool(err != nil), core.Ls())
			if ps.supported {
				if !bytes.Equal(out, ps.data) || (err != nil) != ps.err || p.calls != 1 || !bytes.Equal(p.rd, rd[:]) {
					gt = "supported provider: bytes/error not returned verbatim"
				}
			} else if err == nil || p.calls != 0 {
				gt = "unsupported provider and no device: expected an error and no provider call"
			}
		}
		c.Add(&core.Case{Class: "provider", Desc: fmt.Sprintf("provider supported=%v err=%v bytes=%d", ps.supported, ps.err, len(ps.data)),
			Input: core.Ls(core.Ls(core.A(1), provSexp(ps)), core.Bs(rd[:])), Impl: impl, GT: gt, NonTrivial: true})
	}
	// unsupported kinds
	for _, v := range []any{nil, 42, "x", struct{}{}} {
		if !c.Wanted() {
			c.Add(&core.Case{Class: "other-type", SkipModel: true, Impl: core.Ls()})
			continue
		}
		var rd [64]byte
		out, err, pan := callRaw(v, rd)
		gt := ""
		impl := core.Ls(core.A(0), core.Bs(out), core.Bool(err != nil), core.Ls())
		if pan != nil {
			impl = core.Ls(core.A(2))
			gt = fmt.Sprintf("panicked: %v", pan)
		} else if err == nil {
			gt = "unsupported provider type accepted"
		}
		c.Add(&core.Case{Class: "other-type", Desc: fmt.Sprintf("%T", v), Input: core.Ls(core.Ls(core.A(3)), core.Bs(rd[:])), Impl: impl, GT: gt})
	}
}
