package props

import (
	"bufio"
	"crypto/ecdsa"
	"crypto/elliptic"
	"crypto/rand"
	"crypto/tls"
	"crypto/x509"
	"crypto/x509/pkix"
	"fmt"
	"io"
	"math/big"
	"net"
	"net/http"
	"strings"
	"sync"
	"time"

	"verifharness/world"
)

// fakeNet is a loopback HTTPS proxy that stands for "the network" of the check
// tool binary (HTTPS_PROXY + SSL_CERT_FILE): it terminates TLS with a throw-away
// CA and answers every URL from a table; unknown or failing URLs get a 503.
type fakeNet struct {
	ln     net.Listener
	ca     *x509.Certificate
	caKey  *ecdsa.PrivateKey
	caPEM  []byte
	mu     sync.Mutex
	leaves map[string]*tls.Certificate
	tables sync.Map // proxy user name -> map[string]world.Resp
}

func newFakeNet() (*fakeNet, error) {
	key, err := ecdsa.GenerateKey(elliptic.P256(), rand.Reader)
	if err != nil {
		return nil, err
	}
	tmpl := &x509.Certificate{SerialNumber: big.NewInt(1), Subject: pkix.Name{CommonName: "verif throw-away CA"}, NotBefore: time.Now().Add(-time.Hour),
		NotAfter: time.Now().Add(24 * time.Hour), IsCA: true, BasicConstraintsValid: true, KeyUsage: x509.KeyUsageCertSign}
	der, err := x509.CreateCertificate(rand.Reader, tmpl, tmpl, &key.PublicKey, key)
	if err != nil {
		return nil, err
	}
	ca, _ := x509.ParseCertificate(der)
	ln, err := net.Listen("tcp", "127.0.0.1:0")
	if err != nil {
		return nil, err
	}
	n := &fakeNet{ln: ln, ca: ca, caKey: key, caPEM: pemCerts(ca), leaves: map[string]*tls.Certificate{}}
	go n.serve()
	return n, nil
}

func (n *fakeNet) close() { n.ln.Close() }

func (n *fakeNet) leaf(host string) (*tls.Certificate, error) {
	n.mu.Lock()
	defer n.mu.Unlock()
	if c, ok := n.leaves[host]; ok {
		return c, nil
	}
	key, err := ecdsa.GenerateKey(elliptic.P256(), rand.Reader)
	if err != nil {
		return nil, err
	}
	tmpl := &x509.Certificate{SerialNumber: big.NewInt(int64(len(n.leaves) + 2)), Subject: pkix.Name{CommonName: host}, DNSNames: []string{host},
		NotBefore: time.Now().Add(-time.Hour), NotAfter: time.Now().Add(24 * time.Hour), KeyUsage: x509.KeyUsageDigitalSignature, ExtKeyUsage: []x509.ExtKeyUsage{x509.ExtKeyUsageServerAuth}}
	der, err := x509.CreateCertificate(rand.Reader, tmpl, n.ca, &key.PublicKey, n.caKey)
	if err != nil {
		return nil, err
	}
	c := &tls.Certificate{Certificate: [][]byte{der}, PrivateKey: key}
	n.leaves[host] = c
	return c, nil
}

func (n *fakeNet) serve() {
	for {
		conn, err := n.ln.Accept()
		if err != nil {
			return
		}
		go n.handle(conn)
	}
}

// Each tool run authenticates to the proxy with its own user name
// (HTTPS_PROXY=http://<id>@127.0.0.1:port), which selects its response table.
func (n *fakeNet) handle(conn net.Conn) {
	defer conn.Close()
	br := bufio.NewReader(conn)
	req, err := http.ReadRequest(br)
	if err != nil || req.Method != http.MethodConnect {
		fmt.Fprint(conn, "HTTP/1.1 400 Bad Request\r\n\r\n")
		return
	}
	id := ""
	if a := req.Header.Get("Proxy-Authorization"); strings.HasPrefix(a, "Basic ") {
		if u, _, ok := (&http.Request{Header: http.Header{"Authorization": {a}}}).BasicAuth(); ok {
			id = u
		}
	}
	host := req.URL.Hostname()
	if host == "" {
		host, _, _ = net.SplitHostPort(req.Host)
	}
	fmt.Fprint(conn, "HTTP/1.1 200 Connection Established\r\n\r\n")
	tc := tls.Server(conn, &tls.Config{GetCertificate: func(h *tls.ClientHelloInfo) (*tls.Certificate, error) {
		name := h.ServerName
		if name == "" {
			name = host
		}
		return n.leaf(name)
	}})
	if err := tc.Handshake(); err != nil {
		return
	}
	defer tc.Close()
	tbr := bufio.NewReader(tc)
	var table map[string]world.Resp
	if t, ok := n.tables.Load(id); ok {
		table = t.(map[string]world.Resp)
	}
	for {
		r, err := http.ReadRequest(tbr)
		if err != nil {
			return
		}
		_, _ = io.Copy(io.Discard, r.Body)
		url := "https://" + host + r.URL.RequestURI()
		resp, ok := table[url]
		status, body := 200, resp.Body
		hdr := http.Header{}
		if !ok || resp.Err != nil {
			status, body = 503, []byte("unavailable")
		} else {
			for k, vs := range resp.Header {
				for _, v := range vs {
					hdr.Add(k, v)
				}
			}
		}
		hdr.Set("Content-Length", fmt.Sprint(len(body)))
		fmt.Fprintf(tc, "HTTP/1.1 %d %s\r\n", status, http.StatusText(status))
		_ = hdr.Write(tc)
		fmt.Fprint(tc, "\r\n")
		_, _ = tc.Write(body)
	}
}

// env returns the environment that routes a tool run through the proxy with the
// given response table.
func (n *fakeNet) env(id string, table map[string]world.Resp, caFile string) []string {
	n.tables.Store(id, table)
	addr := n.ln.Addr().String()
	return []string{"HTTPS_PROXY=http://" + id + "@" + addr, "https_proxy=http://" + id + "@" + addr, "NO_PROXY=", "no_proxy=", "SSL_CERT_FILE=" + caFile, "SSL_CERT_DIR=/nonexistent"}
}
