package props

import (
	"encoding/json"
	"fmt"
	"math/rand"
	"strings"

	"github.com/google/go-tdx-guest/abi"
	"github.com/google/go-tdx-guest/pcs"
	pb "github.com/google/go-tdx-guest/proto/tdx"
	"github.com/google/go-tdx-guest/verify"

	"verifharness/core"
	"verifharness/world"
)

var allStatuses = []string{"UpToDate", "SWHardeningNeeded", "ConfigurationNeeded", "ConfigurationAndSWHardeningNeeded", "OutOfDate", "OutOfDateConfigurationNeeded", "Revoked"}

// levelShape: how one TCB level compares with the platform (small-scope abstraction)
type levelShape struct {
	sgxFail, tdxFail int  // -1: all components <= platform; k: component k is one above the platform's
	pceFail          bool // level PCE SVN one above the platform's
	status           string
}

func (s levelShape) String() string {
	return fmt.Sprintf("{sgx:%d pce:%v tdx:%d %s}", s.sgxFail, s.pceFail, s.tdxFail, s.status)
}

func mkLevel(r *rand.Rand, s levelShape, ext world.SGXExt, tee [16]byte) world.TcbLevel {
	var t world.Tcb
	for i := 0; i < 16; i++ {
		t.Sgx[i] = byte(r.Intn(int(ext.CPUSVNComps[i]) + 1))
		t.Tdx[i] = byte(r.Intn(int(tee[i]) + 1))
	}
	if r.Intn(2) == 0 { // exact boundary
		t.Sgx, t.Tdx = ext.CPUSVNComps, tee
	}
	t.PceSvn = ext.PCESVN
	if s.sgxFail >= 0 {
		t.Sgx[s.sgxFail] = ext.CPUSVNComps[s.sgxFail] + 1
	}
	if s.tdxFail >= 0 {
		t.Tdx[s.tdxFail] = tee[s.tdxFail] + 1
	}
	if s.pceFail {
		t.PceSvn = ext.PCESVN + 1
	}
	return world.TcbLevel{Tcb: t, Date: "2025-01-01T00:00:00Z", Status: s.status}
}

// intelTcbVerdict: the algorithm of the property text, written independently.
// levels are given by their shapes; returns (accepted, some level matches).
func intelTcbVerdict(shapes []levelShape, tee [16]byte, mods []modShape) (accept, platformMatch bool) {
	start := 0
	if tee[1] > 0 {
		start = 2
	}
	idx := -1
	for i, s := range shapes {
		if s.sgxFail < 0 && !s.pceFail && (s.tdxFail < 0 || s.tdxFail < start) {
			idx = i
			break
		}
	}
	if idx < 0 {
		return false, false
	}
	if shapes[idx].status != "UpToDate" {
		return false, true
	}
	if tee[1] == 0 {
		return true, true
	}
	want := fmt.Sprintf("TDX_%02x", tee[1])
	for _, m := range mods {
		if m.id != want {
			continue
		}
		for _, l := range m.levels {
			if uint32(tee[0]) >= l.isvsvn {
				return l.status == "UpToDate", true
			}
		}
		return false, true
	}
	return false, true
}

type modLevel struct {
	isvsvn uint32
	status string
}
type modShape struct {
	id     string
	levels []modLevel
}

// c04World builds a world whose TCB info has the given shapes; the quote has
// TEE_TCB_SVN components in 1..200 so that "one above" never wraps.
type c04Base struct {
	pki    *world.PKI
	fields world.QuoteFields
}

func newC04Base(r *rand.Rand, tee1 byte) *c04Base {
	ext := world.RandomSGXExt(r)
	for i := range ext.CPUSVNComps {
		ext.CPUSVNComps[i] = byte(1 + r.Intn(200))
	}
	ext.PCESVN = uint16(1 + r.Intn(60000))
	pki, err := world.NewPKI(r, world.PKIOpts{Now: baseTime, Ext: ext})
	if err != nil {
		panic(err)
	}
	f := world.DefaultQuoteFields(r)
	for i := range f.TeeTcbSvn {
		f.TeeTcbSvn[i] = byte(1 + r.Intn(200))
	}
	f.TeeTcbSvn[1] = tee1
	return &c04Base{pki: pki, fields: f}
}

func (b *c04Base) build(r *rand.Rand, shapes []levelShape, mods []modShape) *world.World {
	w, err := world.BuildWorld(r, baseTime, b.pki, b.fields)
	if err != nil {
		panic(err)
	}
	ext := b.pki.Opts.Ext
	w.TcbInfo.Levels = nil
	for _, s := range shapes {
		w.TcbInfo.Levels = append(w.TcbInfo.Levels, mkLevel(r, s, ext, b.fields.TeeTcbSvn))
	}
	w.TcbInfo.ModuleIdentities = nil
	for _, m := range mods {
		mi := world.TdxModuleIdentity{ID: m.id, Mrsigner: w.TcbInfo.ModuleMrsigner, Attributes: w.TcbInfo.ModuleAttributes, AttributesMask: w.TcbInfo.ModuleAttributesMask}
		for _, l := range m.levels {
			mi.Levels = append(mi.Levels, world.TcbLevel{Tcb: world.Tcb{ModuleLevel: true, IsvSvn: l.isvsvn}, Date: "2025-01-01T00:00:00Z", Status: l.status})
		}
		w.TcbInfo.ModuleIdentities = append(w.TcbInfo.ModuleIdentities, mi)
	}
	w.Seal(r)
	return w
}

func decodeDocs(w *world.World) (pcs.TcbInfo, pcs.EnclaveIdentity) {
	var ti pcs.TcbInfo
	var qi pcs.EnclaveIdentity
	if err := json.Unmarshal(w.TcbInfo.JSON(), &ti); err != nil {
		panic("harness: own TCB info does not decode: " + err.Error())
	}
	if err := json.Unmarshal(w.QeIdentity.JSON(), &qi); err != nil {
		panic("harness: own QE identity does not decode: " + err.Error())
	}
	return ti, qi
}

func c04Case(c *core.Ctx, r *rand.Rand, base *c04Base, class string, shapes []levelShape, mods []modShape, idMut string) {
	if !c.Wanted() {
		c.Add(&core.Case{Class: class, SkipModel: true, Impl: core.Ls()})
		c.Add(&core.Case{Class: class + "/supported", SkipModel: true, Impl: core.Ls()})
		return
	}
	w := base.build(r, shapes, mods)
	identityOK := true
	switch idMut {
	case "fmspc":
		w.TcbInfo.Fmspc = "0" + w.TcbInfo.Fmspc[1:]
		if w.TcbInfo.Fmspc == strings.ToLower(fmt.Sprintf("%x", base.pki.Opts.Ext.FMSPC[:])) {
			w.TcbInfo.Fmspc = "f" + w.TcbInfo.Fmspc[1:]
		}
		identityOK = false
	case "fmspc-upper":
		w.TcbInfo.Fmspc = strings.ToUpper(w.TcbInfo.Fmspc)
	case "pceid":
		w.TcbInfo.PceID = "ffff"
		identityOK = fmt.Sprintf("%x", base.pki.Opts.Ext.PCEID[:]) == "ffff"
	case "pceid-upper":
		up := strings.ToUpper(w.TcbInfo.PceID)
		identityOK = up == w.TcbInfo.PceID
		w.TcbInfo.PceID = up
	case "mrsigner":
		m := append([]byte{}, w.TcbInfo.ModuleMrsigner...)
		m[7] ^= 1
		w.TcbInfo.ModuleMrsigner = m
		identityOK = false
	case "attributes":
		m := append([]byte{}, w.TcbInfo.ModuleAttributes...)
		m[3] ^= 0x10
		w.TcbInfo.ModuleAttributes = m
		identityOK = false
	case "mask-short":
		w.TcbInfo.ModuleAttributesMask = w.TcbInfo.ModuleAttributesMask[:7]
		identityOK = false
	}
	if idMut != "" {
		w.Seal(r)
	}
	sc := scenarioFromWorld(w, true, false)
	obs, err, pan, opts := sc.run()
	wantAccept, platformMatch := intelTcbVerdict(shapes, base.fields.TeeTcbSvn, mods)
	wantAccept = wantAccept && identityOK
	gt := ""
	desc := fmt.Sprintf("tee[0]=%d tee[1]=%d levels=%v modules=%v id=%s", base.fields.TeeTcbSvn[0], base.fields.TeeTcbSvn[1], shapes, mods, idMut)
	switch {
	case pan != nil:
		gt = fmt.Sprintf("verification panicked: %v", pan)
	case wantAccept && err != nil:
		gt = "Intel's algorithm accepts (identity matches, first matching level and module level UpToDate) but verification failed: " + err.Error()
	case !wantAccept && err == nil:
		gt = "accepted although Intel's algorithm rejects (identity mismatch, no matching level, or a matching platform/module level that is not UpToDate)"
	}
	c.Count("verdict", fmt.Sprintf("%d", obs.Nth(0).N))
	c.Add(&core.Case{Class: class, Desc: desc, Entry: "ver", Input: sc.modelInput(), Impl: obs, GT: gt, NonTrivial: len(shapes) > 0})

	// the reporting API, on the options the verification just filled in
	var l1, l2 pcs.TcbLevel
	var serr error
	q, _ := abi.QuoteToProto(sc.Raw)
	span := safely(func() { l1, l2, serr = verify.SupportedTcbLevelsFromCollateral(q, opts) })
	var sobs core.Sexp
	sgt := ""
	switch {
	case span != nil:
		sobs = core.Ls(core.A(2))
		sgt = fmt.Sprintf("SupportedTcbLevelsFromCollateral panicked: %v", span)
	case serr != nil:
		sobs = core.Ls(core.A(1))
	default:
		sobs = core.Ls(core.A(0), levelSexp(l1), levelSexp(l2))
		if !platformMatch {
			sgt = "no TCB level matches the platform but SupportedTcbLevelsFromCollateral returned no error (empty level)"
		}
	}
	ti, qi := decodeDocs(w)
	ext, _ := pcs.PckCertificateExtensions(base.pki.Leaf.Cert)
	var tee []core.Sexp
	for _, b := range base.fields.TeeTcbSvn {
		tee = append(tee, core.A(uint64(b)))
	}
	isv := q.(*pb.QuoteV4).GetSignedData().GetCertificationData().GetQeReportCertificationData().GetQeReport().GetIsvSvn()
	arg := core.Ls(tcbInfoSexp(ti), qeIdentitySexp(qi), core.Ls(tee...), pckExtSexp(ext), core.A(uint64(isv)))
	c.Add(&core.Case{Class: class + "/supported", Desc: desc, Entry: "ver", Input: core.Ls(core.A(2), core.Ls(), arg, core.Ls(), core.A(0)), Impl: sobs, GT: sgt, NonTrivial: len(shapes) > 0})
}

func C04(c *core.Ctx) {
	c.Rule = "signed TCB Info documents built around one platform: ordered level lists (0..4 levels; each level = SGX components all <= platform or one component one above at index 0/7/15, PCE SVN <= or one above, TDX components <= or one above at index 0/1/2/15, each of the 7 statuses, or the tcbStatus member absent), TEE_TCB_SVN[1] zero and non-zero, TDX module identities absent / present / duplicated / wrong id with level lists and statuses, identity fields (FMSPC incl. upper case, PCE-ID, MRSIGNERSEAM, SEAM attributes and mask) matching or not; exhaustive over <= 2 levels in the thorough tier, sampled in the quick tier; each through verify.RawTdxQuote with collateral and then verify.SupportedTcbLevelsFromCollateral. non-trivial = at least one level; distinct = distinct (platform, document)"
	r := c.Rng
	sgxOpts := []int{-1, 0, 7, 15}
	tdxOpts := []int{-1, 0, 1, 2, 15}
	randShape := func() levelShape {
		s := levelShape{sgxFail: -1, tdxFail: -1, status: allStatuses[r.Intn(7)]}
		if r.Intn(3) == 0 {
			s.sgxFail = sgxOpts[1+r.Intn(3)]
		}
		if r.Intn(3) == 0 {
			s.tdxFail = tdxOpts[1+r.Intn(4)]
		}
		if r.Intn(4) == 0 {
			s.pceFail = true
		}
		if r.Intn(2) == 0 {
			s.status = "UpToDate"
		}
		return s
	}
	randMods := func(tee [16]byte) []modShape {
		want := fmt.Sprintf("TDX_%02x", tee[1])
		var mods []modShape
		n := r.Intn(3)
		for i := 0; i < n; i++ {
			m := modShape{id: want}
			if r.Intn(4) == 0 {
				m.id = fmt.Sprintf("TDX_%02x", tee[1]+1)
			}
			if r.Intn(8) == 0 {
				m.id = strings.ToUpper(want)
			}
			if r.Intn(6) == 0 {
				m.id = fmt.Sprintf("TDX_%02d", tee[1]) // decimal rendering: a different identity unless < 10
			}
			for j := 0; j < r.Intn(3); j++ {
				isv := uint32(tee[0])
				switch r.Intn(3) {
				case 0:
					isv++
				case 1:
					if isv > 0 {
						isv--
					}
				}
				st := allStatuses[r.Intn(7)]
				if r.Intn(2) == 0 {
					st = "UpToDate"
				}
				m.levels = append(m.levels, modLevel{isv, st})
			}
			mods = append(mods, m)
		}
		return mods
	}
	bases := []*c04Base{newC04Base(r, 0), newC04Base(r, 1), newC04Base(r, 3), newC04Base(r, 0x0a), newC04Base(r, 0x10), newC04Base(r, 0xff)}
	// the two defects' shapes first, explicitly
	for _, b := range bases {
		c04Case(c, r, b, "no-matching-level", []levelShape{{sgxFail: 0, tdxFail: -1, status: "UpToDate"}}, nil, "")
		c04Case(c, r, b, "no-levels", nil, nil, "")
		want := fmt.Sprintf("TDX_%02x", b.fields.TeeTcbSvn[1])
		for _, ps := range append(append([]string{}, allStatuses...), world.AbsentStatus) {
			for _, ms := range append(append([]string{}, allStatuses...), world.AbsentStatus) {
				c04Case(c, r, b, "platform-x-module-status", []levelShape{{sgxFail: -1, tdxFail: -1, status: ps}},
					[]modShape{{want, []modLevel{{uint32(b.fields.TeeTcbSvn[0]), ms}}}}, "")
			}
		}
		if b.fields.TeeTcbSvn[1] >= 10 {
			dec := fmt.Sprintf("TDX_%02d", b.fields.TeeTcbSvn[1])
			c04Case(c, r, b, "module-id-decoy", []levelShape{{sgxFail: -1, tdxFail: -1, status: "UpToDate"}},
				[]modShape{{dec, []modLevel{{0, "UpToDate"}}}}, "")
			c04Case(c, r, b, "module-id-decoy", []levelShape{{sgxFail: -1, tdxFail: -1, status: "UpToDate"}},
				[]modShape{{dec, []modLevel{{0, "UpToDate"}}}, {want, []modLevel{{0, "OutOfDate"}}}}, "")
		}
		for _, id := range []string{"fmspc", "fmspc-upper", "pceid", "pceid-upper", "mrsigner", "attributes", "mask-short"} {
			c04Case(c, r, b, "identity", []levelShape{{sgxFail: -1, tdxFail: -1, status: "UpToDate"}},
				[]modShape{{want, []modLevel{{0, "UpToDate"}}}}, id)
		}
	}
	if c.Thorough() {
		// exhaustive small scope: <= 2 levels
		var shapes []levelShape
		for _, sg := range []int{-1, 0, 15} {
			for _, pc := range []bool{false, true} {
				for _, td := range tdxOpts {
					for _, st := range []string{"UpToDate", "OutOfDate", "SWHardeningNeeded"} {
						shapes = append(shapes, levelShape{sg, td, pc, st})
					}
				}
			}
		}
		for _, b := range bases[:2] {
			want := fmt.Sprintf("TDX_%02x", b.fields.TeeTcbSvn[1])
			mods := []modShape{{want, []modLevel{{uint32(b.fields.TeeTcbSvn[0]), "UpToDate"}}}}
			for _, s1 := range shapes {
				c04Case(c, r, b, "exhaustive-1", []levelShape{s1}, mods, "")
				for _, s2 := range shapes {
					c04Case(c, r, b, "exhaustive-2", []levelShape{s1, s2}, mods, "")
				}
			}
		}
	}
	for i := 0; i < c.Scale(450, 6000); i++ {
		b := bases[r.Intn(len(bases))]
		n := r.Intn(5)
		var shapes []levelShape
		for j := 0; j < n; j++ {
			shapes = append(shapes, randShape())
		}
		c04Case(c, r, b, "random", shapes, randMods(b.fields.TeeTcbSvn), "")
	}
}
