package core

import (
	"bytes"
	"encoding/hex"
	"fmt"
	"os"
	"os/exec"
	"path/filepath"
	"sort"
	"strings"
)

// In-kernel cross-check of the extracted model: a few cases of the run are
// evaluated by Coq itself (vm_compute on the Wire entry) and compared with what
// the extracted OCaml program printed for them.

var goldenEntries = map[string][2]string{
	"C15": {"Wire.C15", "run_C15"}, "abi": {"Wire.Abi", "run_abi"}, "val": {"Wire.Validate", "run_val"}, "ver": {"Wire.Verify", "run_verify"},
	"rtmr": {"Wire.Rtmr", "run_rtmr"}, "retry": {"Wire.Retry", "run_retry"}, "pck": {"Wire.PckExt", "run_pck"}, "heap": {"Wire.Heap", "run_heap"},
	"ccel": {"Wire.Ccel", "run_ccel"}, "tool": {"Wire.CheckTool", "run_checktool"},
}

func coqSexp(s Sexp, sb *strings.Builder) {
	switch s.Kind {
	case 'A':
		fmt.Fprintf(sb, "(A %d%%N)", s.N)
	case 'B':
		fmt.Fprintf(sb, "(B (hexb \"%s\"))", hex.EncodeToString(s.B))
	default:
		sb.WriteString("(L [")
		for i, x := range s.L {
			if i > 0 {
				sb.WriteString("; ")
			}
			coqSexp(x, sb)
		}
		sb.WriteString("])")
	}
}

// goldenCheck returns (number of cases checked, error text or "").
func (c *Ctx) goldenCheck(cases []*Case, raw map[int]Sexp, k int) (int, string) {
	var sel []*Case
	for _, cs := range cases {
		if _, ok := raw[cs.ID]; ok && !cs.SkipModel {
			if _, ok := goldenEntries[cs.Entry]; ok {
				sel = append(sel, cs)
			}
		}
	}
	if len(sel) == 0 {
		return 0, ""
	}
	// a spread over the run, small inputs first within a size cap (Coq parses the literals)
	sort.SliceStable(sel, func(i, j int) bool { return len(sel[i].Input.String()) < len(sel[j].Input.String()) })
	var pick []*Case
	step := len(sel) / k
	if step < 1 {
		step = 1
	}
	for i := 0; i < len(sel) && len(pick) < k; i += step {
		if len(sel[i].Input.String()) > 400000 {
			break
		}
		pick = append(pick, sel[i])
	}
	var sb strings.Builder
	sb.WriteString("From Coq Require Import String List.\nFrom V Require Import Lib.Sexp")
	mods := map[string]bool{}
	for _, cs := range pick {
		m := goldenEntries[cs.Entry][0]
		if !mods[m] {
			mods[m] = true
			sb.WriteString(" " + m)
		}
	}
	sb.WriteString(".\nImport ListNotations.\nOpen Scope string_scope.\n")
	var oks []string
	for i, cs := range pick {
		fmt.Fprintf(&sb, "Definition in%d : sexp := ", i)
		coqSexp(cs.Input, &sb)
		fmt.Fprintf(&sb, ".\nDefinition out%d : sexp := ", i)
		coqSexp(raw[cs.ID], &sb)
		fmt.Fprintf(&sb, ".\nDefinition ok%d : bool := Eval vm_compute in sexp_eqb (%s in%d) out%d.\n", i, goldenEntries[cs.Entry][1], i, i)
		fmt.Fprintf(&sb, "Lemma golden%d : ok%d = true. Proof. reflexivity. Qed.\n", i, i)
		oks = append(oks, fmt.Sprint(cs.ID))
	}
	dir := c.Work
	if dir == "" {
		dir = os.TempDir()
	}
	f := filepath.Join(dir, "golden_"+c.Prop+".v")
	if err := os.WriteFile(f, []byte(sb.String()), 0o644); err != nil {
		return 0, err.Error()
	}
	defer func() {
		for _, ext := range []string{".v", ".vo", ".vok", ".vos", ".glob"} {
			os.Remove(strings.TrimSuffix(f, ".v") + ext)
		}
		os.Remove(filepath.Join(dir, ".golden_"+c.Prop+".aux"))
	}()
	// a large stack: Coq's parser recurses on long list literals
	cmd := exec.Command("bash", "-c", "ulimit -s unlimited 2>/dev/null || ulimit -s 4000000 2>/dev/null; exec timeout 900 coqc -Q \"$1\" V \"$2\"", "coqc", filepath.Join(c.Verif, "coq"), f)
	var out bytes.Buffer
	cmd.Stdout, cmd.Stderr = &out, &out
	if err := cmd.Run(); err != nil {
		text := out.String()
		if strings.Contains(text, "Unable to unify") {
			return len(pick), fmt.Sprintf("in-kernel evaluation disagrees with the extracted model (cases %s): %s", strings.Join(oks, ","), trunc(text, 600))
		}
		// the cross-check itself could not be carried out (resource limits of coqc on the generated file): not a verdict
		fmt.Fprintf(os.Stderr, "  [%s] in-kernel cross-check not carried out: %s\n", c.Prop, trunc(strings.TrimSpace(text), 200))
		return 0, ""
	}
	return len(pick), ""
}
