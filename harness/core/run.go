package core

import (
	"bufio"
	"bytes"
	"crypto/sha256"
	"encoding/json"
	"fmt"
	"math/rand"
	"os"
	"os/exec"
	"path/filepath"
	"sort"
	"strings"
	"sync"
	"time"
)

// Case is one explored input: what the model consumes, what the implementation
// showed, and (optionally) what the property itself demands on ground truth.
type Case struct {
	ID         int
	Class      string // generator class, for the histogram
	Desc       string // human-readable description (goes into samples / replay)
	Entry      string // model entry point (defaults to the property id)
	Input      Sexp   // model input
	Impl       Sexp   // projected observation of the implementation
	GT         string // non-empty: the implementation violates the property on this case (ground-truth oracle)
	Signature  string // known-finding signature of this case, if it has one
	NonTrivial bool   // reaches the code the property is about
	SkipModel  bool   // implementation-only case (GT oracle only)
	Extra      map[string]any
	Project    func(Sexp) Sexp // optional canonicalisation of the model's output before the comparison
}

func (cs *Case) project(m Sexp) Sexp {
	if cs.Project != nil {
		return cs.Project(m)
	}
	return m
}

type Ctx struct {
	Prop        string
	Tier        string
	Seed        int64
	Rng         *rand.Rand
	Verif       string // /verif
	Repo        string // /repo
	Work        string // scratch directory (removed by check.sh)
	Start       time.Time
	Rule        string
	cases       []*Case
	ReplayID    int          // >=0: only this case is of interest
	HistoryTick int          // counts flow cases (every n-th is repeated on an Options value with a history)
	rawOut      map[int]Sexp // unprojected model outputs
	golden      int          // cases cross-checked in the kernel
	Notes       []string
	Boost       bool
	Lookahead   int // in replay mode, also run a case when one of the next Lookahead cases is the recorded one (it depends on this one having run)
	Hist        map[string]map[string]int
	replay      bool
}

func NewCtx(prop, tier string, seed int64) *Ctx {
	verif := os.Getenv("VERIF_DIR")
	if verif == "" {
		verif = "/verif"
	}
	repo := os.Getenv("VERIF_REPO")
	if repo == "" {
		repo = "/repo"
	}
	work := os.Getenv("VERIF_WORK")
	if work == "" {
		work = filepath.Join(verif, ".work", prop)
	}
	_ = os.MkdirAll(work, 0o755)
	c := &Ctx{
		Prop: prop, Tier: tier, Seed: seed,
		Rng:   rand.New(rand.NewSource(seed)),
		Verif: verif, Repo: repo, Work: work, Start: time.Now(),
		ReplayID: -1,
		Hist:     map[string]map[string]int{},
	}
	if u := strings.TrimSpace(os.Getenv("VERIF_UNREADABLE")); u != "" {
		c.Boost = true
		c.Notes = append(c.Notes, "the translator could not read part of the source in the idioms it knows; for the tables named here the tie is this correspondence check alone, run at the thorough scale: "+strings.ReplaceAll(u, "\n", "; "))
	}
	return c
}

// Thorough: the thorough tier, or a quick run that check.sh boosted to the
// thorough scale because the translator could not read part of the source (the
// tie for that part then rests on this correspondence check alone).
func (c *Ctx) Thorough() bool { return c.Tier == "thorough" || c.Boost }

// Scale returns q for the quick tier and t for the thorough tier.
func (c *Ctx) Scale(q, t int) int {
	if c.Thorough() {
		return t
	}
	return q
}

func (c *Ctx) Add(cs *Case) *Case {
	cs.ID = len(c.cases)
	if cs.Entry == "" {
		cs.Entry = c.Prop
	}
	c.cases = append(c.cases, cs)
	return cs
}

func (c *Ctx) NextID() int { return len(c.cases) }

func (c *Ctx) Count(hist, key string) {
	m := c.Hist[hist]
	if m == nil {
		m = map[string]int{}
		c.Hist[hist] = m
	}
	m[key]++
}

// Wanted reports whether the case with the next id should be executed (always
// true except in replay mode, where only the recorded id runs).
func (c *Ctx) Wanted() bool {
	return c.ReplayID < 0 || (c.ReplayID >= len(c.cases) && c.ReplayID <= len(c.cases)+c.Lookahead)
}

type knownFinding struct {
	Property  string `json:"property"`
	Signature string `json:"signature"`
	What      string `json:"what"`
}
type knownFile struct {
	Known []knownFinding `json:"known"`
	Fixed []string       `json:"fixed"`
}

func (c *Ctx) loadKnown() []knownFinding {
	var kf knownFile
	b, err := os.ReadFile(filepath.Join(c.Verif, "known_findings.json"))
	if err != nil {
		return nil
	}
	if err := json.Unmarshal(b, &kf); err != nil {
		fmt.Fprintln(os.Stderr, "known_findings.json:", err)
		return nil
	}
	var out []knownFinding
	for _, k := range kf.Known {
		if k.Property == c.Prop {
			out = append(out, k)
		}
	}
	return out
}

// runModel pipes the cases through ocaml/modelrun.
// runModel runs the extracted model on every non-skipped case; the cases are
// split over several modelrun processes.
func (c *Ctx) runModel(cases []*Case) (map[int]Sexp, error) {
	bin := filepath.Join(c.Verif, "ocaml", "modelrun")
	if _, err := os.Stat(bin); err != nil {
		return nil, fmt.Errorf("model binary missing: %v", err)
	}
	var todo []*Case
	for _, cs := range cases {
		if !cs.SkipModel {
			todo = append(todo, cs)
		}
	}
	shards := 12
	if len(todo) < 200 {
		shards = 1
	}
	type shardRes struct {
		out map[int]Sexp
		raw map[int]Sexp
		err error
	}
	results := make([]shardRes, shards)
	var wg sync.WaitGroup
	for s := 0; s < shards; s++ {
		s := s
		wg.Add(1)
		go func() {
			defer wg.Done()
			var part []*Case
			for i := s; i < len(todo); i += shards {
				part = append(part, todo[i])
			}
			results[s].out, results[s].raw, results[s].err = runModelShard(bin, part)
		}()
	}
	wg.Wait()
	res := map[int]Sexp{}
	if c.rawOut == nil {
		c.rawOut = map[int]Sexp{}
	}
	for _, r := range results {
		if r.err != nil {
			return nil, r.err
		}
		for k, v := range r.out {
			res[k] = v
		}
		for k, v := range r.raw {
			c.rawOut[k] = v
		}
	}
	return res, nil
}

func runModelShard(bin string, cases []*Case) (map[int]Sexp, map[int]Sexp, error) {
	res, raw := map[int]Sexp{}, map[int]Sexp{}
	if len(cases) == 0 {
		return res, raw, nil
	}
	var in bytes.Buffer
	for _, cs := range cases {
		in.WriteString(cs.Entry)
		in.WriteByte(' ')
		in.WriteString(cs.Input.String())
		in.WriteByte('\n')
	}
	cmd := exec.Command(bin)
	cmd.Stdin = &in
	var out bytes.Buffer
	cmd.Stdout = &out
	cmd.Stderr = os.Stderr
	if err := cmd.Run(); err != nil {
		return nil, nil, fmt.Errorf("modelrun: %v", err)
	}
	sc := bufio.NewScanner(&out)
	sc.Buffer(make([]byte, 1<<20), 1<<28)
	i := 0
	for sc.Scan() {
		if i >= len(cases) {
			return nil, nil, fmt.Errorf("modelrun printed too many lines")
		}
		s, err := ParseSexp(sc.Text())
		if err != nil {
			return nil, nil, fmt.Errorf("modelrun output line %d: %v", i, err)
		}
		raw[cases[i].ID] = s
		res[cases[i].ID] = cases[i].project(s)
		i++
	}
	if i != len(cases) {
		return nil, nil, fmt.Errorf("modelrun printed %d lines for %d cases", i, len(cases))
	}
	return res, raw, nil
}

type replayFile struct {
	Property string `json:"property"`
	Kind     string `json:"kind"` // "failing-input" | "correspondence" | "proof"
	Seed     int64  `json:"seed"`
	Tier     string `json:"tier"`
	CaseID   int    `json:"case_id"`
	Class    string `json:"class,omitempty"`
	Desc     string `json:"desc,omitempty"`
	Message  string `json:"message"`
	Input    string `json:"model_input,omitempty"`
	Impl     string `json:"impl_observation,omitempty"`
	Model    string `json:"model_observation,omitempty"`
	Theorem  string `json:"theorem_or_correspondence,omitempty"`
	Replay   string `json:"replay_cmd"`
}

func (c *Ctx) writeReplay(name string, r replayFile) string {
	dir := filepath.Join(c.Verif, "evidence", "replay")
	_ = os.MkdirAll(dir, 0o755)
	p := filepath.Join(dir, fmt.Sprintf("%s_%s.json", c.Prop, name))
	r.Property = c.Prop
	r.Seed = c.Seed
	r.Tier = c.Tier
	if c.Boost {
		r.Tier = "thorough" // the scale the cases were generated at
	}
	r.Replay = fmt.Sprintf("./check.sh %s replay %s", c.Prop, p)
	b, _ := json.MarshalIndent(r, "", " ")
	_ = os.WriteFile(p, b, 0o644)
	return p
}

func trunc(s string, n int) string {
	if len(s) > n {
		return s[:n] + fmt.Sprintf("...(%d chars)", len(s))
	}
	return s
}

// Finish runs the model over all cases, compares, decides, writes evidence and
// returns the process exit code.
func (c *Ctx) Finish() int {
	proofStatus := os.Getenv("VERIF_PROOF_STATUS") // "ok" or "broken: ..."
	if proofStatus == "" {
		proofStatus = "unknown"
	}
	known := c.loadKnown()
	isKnown := func(sig string) *knownFinding {
		if sig == "" {
			return nil
		}
		for i := range known {
			if known[i].Signature == sig {
				return &known[i]
			}
		}
		return nil
	}

	modelOut, modelErr := c.runModel(c.cases)
	if modelErr == nil {
		// cross-check the extracted model against in-kernel evaluation on a few cases
		k := c.Scale(3, 25)
		if n, msg := c.goldenCheck(c.cases, c.rawOut, k); msg != "" {
			modelErr = fmt.Errorf("%s", msg)
		} else {
			c.golden = n
		}
	}
	modelStatus := "ok"
	if modelErr != nil {
		modelStatus = "unavailable: " + modelErr.Error()
	}

	var gtViol, disagree []*Case
	knownHits := map[string]int{}
	distinct := map[[32]byte]bool{}
	nontrivial := 0
	evals := 0
	classHist := map[string]int{}
	for _, cs := range c.cases {
		evals++
		classHist[cs.Class]++
		h := sha256.Sum256([]byte(cs.Class + "|" + cs.Entry + " " + cs.Input.String() + "|" + cs.Desc))
		if cs.NonTrivial && !distinct[h] {
			distinct[h] = true
			nontrivial++
		}
		if cs.GT != "" {
			if k := isKnown(cs.Signature); k != nil {
				knownHits[k.Signature]++
			} else {
				gtViol = append(gtViol, cs)
			}
			continue
		}
		if cs.SkipModel || modelErr != nil {
			continue
		}
		if m, ok := modelOut[cs.ID]; ok && !m.Equal(cs.Impl) {
			if k := isKnown(cs.Signature); k != nil {
				knownHits[k.Signature]++
			} else {
				disagree = append(disagree, cs)
			}
		}
	}

	violations := 0
	var lines []string
	for _, k := range known {
		if knownHits[k.Signature] > 0 {
			lines = append(lines, fmt.Sprintf("KNOWN-FINDING: property=%s %s (%d cases)", c.Prop, k.What, knownHits[k.Signature]))
		}
	}
	mkReplay := func(cs *Case, kind, msg, thm string) string {
		r := replayFile{Kind: kind, CaseID: cs.ID, Class: cs.Class, Desc: cs.Desc, Message: msg,
			Input: trunc(cs.Input.String(), 20000), Impl: trunc(cs.Impl.String(), 20000), Theorem: thm}
		if m, ok := modelOut[cs.ID]; ok {
			r.Model = trunc(m.String(), 20000)
		}
		return c.writeReplay(fmt.Sprintf("case%d", cs.ID), r)
	}
	switch {
	case len(gtViol) > 0:
		// a concrete input on which the implementation fails the property
		sort.Slice(gtViol, func(i, j int) bool { return len(gtViol[i].Input.String()) < len(gtViol[j].Input.String()) })
		seen := map[string]bool{}
		if os.Getenv("VERIF_REPORT_ALL") != "" {
			for _, cs := range gtViol {
				fmt.Fprintf(os.Stderr, "  [%s] (all) case %d (%s) %s: %s\n", c.Prop, cs.ID, cs.Class, trunc(cs.Desc, 120), trunc(cs.GT, 160))
			}
		}
		for _, cs := range gtViol {
			key := cs.Class + "|" + trunc(cs.GT, 40)
			if seen[key] || len(seen) >= 5 {
				continue
			}
			seen[key] = true
			p := mkReplay(cs, "failing-input", cs.GT, "")
			lines = append(lines, fmt.Sprintf("VIOLATION property=%s replay=%s", c.Prop, p))
			fmt.Fprintf(os.Stderr, "  [%s] case %d (%s): %s\n", c.Prop, cs.ID, cs.Class, cs.GT)
		}
		violations = len(gtViol)
	case len(disagree) > 0:
		cs := disagree[0]
		for _, d := range disagree {
			if len(d.Input.String()) < len(cs.Input.String()) {
				cs = d
			}
		}
		msg := fmt.Sprintf("model and implementation disagree on %d case(s); the ground-truth oracle found no input on which the implementation fails the property", len(disagree))
		p := mkReplay(cs, "correspondence", msg, "correspondence "+c.Prop+" (model entry "+cs.Entry+" vs implementation)")
		lines = append(lines, fmt.Sprintf("VIOLATION property=%s replay=%s no-failing-input-found", c.Prop, p))
		for i, d := range disagree {
			if i >= 5 {
				break
			}
			fmt.Fprintf(os.Stderr, "  [%s] disagreement case %d (%s) %s\n     impl  %s\n     model %s\n", c.Prop, d.ID, d.Class, d.Desc,
				trunc(d.Impl.Short(), 400), trunc(modelOut[d.ID].Short(), 400))
		}
		violations = len(disagree)
	case proofStatus != "ok" && !c.replay:
		p := c.writeReplay("proof", replayFile{Kind: "proof", CaseID: -1,
			Message: "a proof obligation of this property no longer checks against the regenerated model; no failing input was found among the explored cases",
			Theorem: proofStatus})
		lines = append(lines, fmt.Sprintf("VIOLATION property=%s replay=%s no-failing-input-found", c.Prop, p))
		violations = 1
	case modelErr != nil && !c.replay:
		p := c.writeReplay("model", replayFile{Kind: "correspondence", CaseID: -1,
			Message: "the executable model could not be run: " + modelErr.Error(), Theorem: "correspondence " + c.Prop})
		lines = append(lines, fmt.Sprintf("VIOLATION property=%s replay=%s no-failing-input-found", c.Prop, p))
		violations = 1
	}

	// evidence
	var samples []any
	step := len(c.cases)/6 + 1
	for i := 0; i < len(c.cases); i += step {
		cs := c.cases[i]
		s := map[string]any{"id": cs.ID, "class": cs.Class, "desc": cs.Desc,
			"model_input": trunc(cs.Input.Short(), 600), "impl": trunc(cs.Impl.Short(), 300)}
		if m, ok := modelOut[cs.ID]; ok {
			s["model"] = trunc(m.Short(), 300)
		}
		samples = append(samples, s)
	}
	obl := envInt("VERIF_OBLIGATIONS", 0)
	dis := envInt("VERIF_DISCHARGED", 0)
	assum := strings.Split(strings.TrimSpace(os.Getenv("VERIF_ASSUMPTIONS")), "\n")
	cov := map[string]any{
		"obligations":              obl,
		"discharged":               dis,
		"checker_cmd":              envStr("VERIF_CHECKER_CMD", "make -C /verif/coq (coqc 8.16.1, full .vo) + coqc Properties/"+c.Prop+".v"),
		"trusted_base":             trustedBase(),
		"evaluations":              evals,
		"distinct_nontrivial":      nontrivial,
		"rule":                     c.Rule,
		"samples":                  samples,
		"class_histogram":          classHist,
		"histograms":               c.Hist,
		"proof_status":             proofStatus,
		"model_status":             modelStatus,
		"kernel_cross_checked":     c.golden,
		"coqchk":                   os.Getenv("VERIF_COQCHK"),
		"print_assumptions":        assum,
		"theorems":                 strings.Fields(os.Getenv("VERIF_THEOREMS")),
		"gt_oracle_violations":     len(gtViol),
		"model_impl_disagreements": len(disagree),
		"known_finding_hits":       knownHits,
		"notes":                    c.Notes,
	}
	ev := map[string]any{
		"property_id": c.Prop,
		"tier":        c.Tier,
		"seed":        c.Seed,
		"level":       "proof",
		"coverage":    cov,
		"assumptions": []string{
			"Coq 8.16.1 kernel; vm_compute; no native_compute; no axioms (Print Assumptions output recorded in coverage.print_assumptions)",
			"tools/gotrans reports constants and recognised statement shapes of /repo faithfully",
			"extraction with the ExtrOcamlBasic directives only; OCaml 4.13.1; ocaml/modelrun.ml tokeniser",
			"the Go harness: generators, abstraction of concrete worlds into model inputs, projection of errors",
			"Go stdlib crypto/x509/asn1/json/pem and third-party libraries are oracles, exercised by correspondence only",
		},
		"wall_s":     time.Since(c.Start).Seconds(),
		"violations": violations,
	}
	if !c.replay {
		_ = os.MkdirAll(filepath.Join(c.Verif, "evidence"), 0o755)
		b, _ := json.MarshalIndent(ev, "", " ")
		_ = os.WriteFile(filepath.Join(c.Verif, "evidence", c.Prop+".json"), b, 0o644)
	}
	for _, l := range lines {
		fmt.Println(l)
	}
	fmt.Printf("[%s] tier=%s seed=%d cases=%d nontrivial=%d proofs=%s model=%s gt_violations=%d disagreements=%d wall=%.1fs\n",
		c.Prop, c.Tier, c.Seed, evals, nontrivial, proofStatus, modelStatus, len(gtViol), len(disagree), time.Since(c.Start).Seconds())
	if violations > 0 {
		return 1
	}
	return 0
}

// ReplayReport prints both observations of the replayed case.
func (c *Ctx) ReplayReport(id int) int {
	c.replay = true
	var sel []*Case
	for _, cs := range c.cases {
		if cs.ID == id {
			sel = append(sel, cs)
		}
	}
	if len(sel) == 0 {
		fmt.Printf("replay: case %d not regenerated (seed/tier mismatch?)\n", id)
		return 2
	}
	out, err := c.runModel(sel)
	cs := sel[0]
	fmt.Printf("replay %s case %d class=%s\n  desc: %s\n  impl : %s\n", c.Prop, cs.ID, cs.Class, cs.Desc, trunc(cs.Impl.Short(), 2000))
	if err != nil {
		fmt.Printf("  model: unavailable (%v)\n", err)
	} else if m, ok := out[cs.ID]; ok {
		fmt.Printf("  model: %s\n", trunc(m.Short(), 2000))
		if !m.Equal(cs.Impl) {
			fmt.Println("  => model and implementation DISAGREE")
		}
	}
	if cs.GT != "" {
		fmt.Printf("  ground-truth oracle: %s\n", cs.GT)
		return 1
	}
	return 0
}

func envInt(k string, d int) int {
	v := os.Getenv(k)
	if v == "" {
		return d
	}
	n := 0
	fmt.Sscanf(v, "%d", &n)
	return n
}
func envStr(k, d string) string {
	if v := os.Getenv(k); v != "" {
		return v
	}
	return d
}

func trustedBase() []string {
	return []string{
		"Coq 8.16.1 kernel (coqc), vm_compute; no native_compute",
		"axioms: none (every property theorem prints 'Closed under the global context')",
		"translator tools/gotrans (go/parser + go/types): constants, ABI/option tables, write-site inventory regenerated from /repo each run",
		"extraction plugin with ExtrOcamlBasic directives (bool, option, unit, list, prod, sumbool, sumor, andb, orb), OCaml 4.13.1, ocaml/modelrun.ml",
		"Go correspondence harness (generators, world builders, abstraction to model inputs, error projection)",
		"modelled-not-verified: Go crypto/ecdsa, sha256/384, crypto/x509, encoding/asn1, pem, json, protobuf, go-configfs-tsm, go-eventlog, Go runtime and OS",
	}
}

// Cases exposes the cases (for property-specific post-processing).
func (c *Ctx) Cases() []*Case { return c.cases }

// Sleep-free helper for deterministic sub-generators.
func (c *Ctx) SubRng(tag string) *rand.Rand {
	h := sha256.Sum256([]byte(fmt.Sprintf("%d/%s", c.Seed, tag)))
	var s int64
	for i := 0; i < 8; i++ {
		s = s<<8 | int64(h[i])
	}
	return rand.New(rand.NewSource(s))
}

func RandBytes(r *rand.Rand, n int) []byte {
	b := make([]byte, n)
	r.Read(b)
	return b
}

// Crash records a panic that escaped from a generator (library code reached
// outside a recover) as a case of its own, so that the run ends with a violation
// and a replay file instead of a crashed check.
func (c *Ctx) Crash(msg string) {
	if len(msg) > 1500 {
		msg = msg[:1500]
	}
	c.Add(&Case{Class: "crash", Desc: "a panic escaped while cases were being generated", SkipModel: true, Impl: Ls(),
		GT: "a panic escaped from library code while cases were being generated (the cases after this one did not run): " + strings.Join(strings.Fields(msg), " "), NonTrivial: true})
}
