// Package core holds the property-independent parts of the correspondence
// harness: the wire format, the model process, case bookkeeping, evidence.
package core

import (
	"encoding/hex"
	"fmt"
	"strconv"
	"strings"
)

// Sexp mirrors coq/Lib/Sexp.v: A n | B bytes | L list.
type Sexp struct {
	Kind byte // 'A', 'B', 'L'
	N    uint64
	B    []byte
	L    []Sexp
}

func A(n uint64) Sexp { return Sexp{Kind: 'A', N: n} }
func Ai(n int) Sexp {
	if n < 0 {
		panic("negative number on the wire")
	}
	return A(uint64(n))
}
func Bs(b []byte) Sexp      { return Sexp{Kind: 'B', B: b} }
func Str(s string) Sexp     { return Sexp{Kind: 'B', B: []byte(s)} }
func Ls(items ...Sexp) Sexp { return Sexp{Kind: 'L', L: items} }
func Bool(b bool) Sexp {
	if b {
		return A(1)
	}
	return A(0)
}
func Opt(present bool, s Sexp) Sexp {
	if present {
		return Ls(s)
	}
	return Ls()
}

func (s Sexp) write(sb *strings.Builder) {
	switch s.Kind {
	case 'A':
		sb.WriteString(strconv.FormatUint(s.N, 16))
	case 'B':
		sb.WriteByte('#')
		sb.WriteString(hex.EncodeToString(s.B))
	default:
		sb.WriteByte('(')
		for i, x := range s.L {
			if i > 0 {
				sb.WriteByte(' ')
			}
			x.write(sb)
		}
		sb.WriteByte(')')
	}
}

func (s Sexp) String() string {
	var sb strings.Builder
	s.write(&sb)
	return sb.String()
}

// Short renders the sexp with long byte strings abbreviated (for samples).
func (s Sexp) Short() string {
	switch s.Kind {
	case 'A':
		return strconv.FormatUint(s.N, 16)
	case 'B':
		if len(s.B) > 24 {
			return fmt.Sprintf("#%s..(%d bytes)", hex.EncodeToString(s.B[:12]), len(s.B))
		}
		return "#" + hex.EncodeToString(s.B)
	default:
		parts := make([]string, len(s.L))
		for i, x := range s.L {
			parts[i] = x.Short()
		}
		return "(" + strings.Join(parts, " ") + ")"
	}
}

func ParseSexp(in string) (Sexp, error) {
	p := &parser{s: in}
	x, err := p.item()
	if err != nil {
		return Sexp{}, err
	}
	return x, nil
}

type parser struct {
	s string
	i int
}

func (p *parser) skip() {
	for p.i < len(p.s) && (p.s[p.i] == ' ' || p.s[p.i] == '\t') {
		p.i++
	}
}

func (p *parser) item() (Sexp, error) {
	p.skip()
	if p.i >= len(p.s) {
		return Sexp{}, fmt.Errorf("unexpected end of sexp")
	}
	switch p.s[p.i] {
	case '(':
		p.i++
		var items []Sexp
		for {
			p.skip()
			if p.i >= len(p.s) {
				return Sexp{}, fmt.Errorf("unclosed list")
			}
			if p.s[p.i] == ')' {
				p.i++
				return Sexp{Kind: 'L', L: items}, nil
			}
			x, err := p.item()
			if err != nil {
				return Sexp{}, err
			}
			items = append(items, x)
		}
	case '#':
		j := p.i + 1
		for j < len(p.s) && p.s[j] != ' ' && p.s[j] != ')' && p.s[j] != '(' {
			j++
		}
		b, err := hex.DecodeString(p.s[p.i+1 : j])
		if err != nil {
			return Sexp{}, err
		}
		p.i = j
		return Sexp{Kind: 'B', B: b}, nil
	default:
		j := p.i
		for j < len(p.s) && p.s[j] != ' ' && p.s[j] != ')' && p.s[j] != '(' {
			j++
		}
		n, err := strconv.ParseUint(p.s[p.i:j], 16, 64)
		if err != nil {
			return Sexp{}, err
		}
		p.i = j
		return Sexp{Kind: 'A', N: n}, nil
	}
}

// Equal is structural equality (nil and empty byte strings are equal).
func (s Sexp) Equal(o Sexp) bool {
	if s.Kind != o.Kind {
		return false
	}
	switch s.Kind {
	case 'A':
		return s.N == o.N
	case 'B':
		return string(s.B) == string(o.B)
	default:
		if len(s.L) != len(o.L) {
			return false
		}
		for i := range s.L {
			if !s.L[i].Equal(o.L[i]) {
				return false
			}
		}
		return true
	}
}

func (s Sexp) Nth(i int) Sexp {
	if s.Kind != 'L' || i >= len(s.L) {
		return Ls()
	}
	return s.L[i]
}
