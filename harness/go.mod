module verifharness

go 1.20

require (
	github.com/google/go-eventlog v0.0.2-0.20241213203620-f921bdc3aeb0
	github.com/google/go-tdx-guest v0.0.0
	github.com/google/logger v1.1.1
	google.golang.org/protobuf v1.34.2
)

require (
	github.com/google/go-configfs-tsm v0.3.2 // indirect
	github.com/google/go-tpm v0.9.0 // indirect
	go.uber.org/multierr v1.11.0 // indirect
	golang.org/x/crypto v0.17.0 // indirect
	golang.org/x/sys v0.19.0 // indirect
)

replace github.com/google/go-tdx-guest => /repo
