// Command verifrace is built with -race by build.sh and run by the C16 check.
package main

import (
	"os"
	"strconv"
	"syscall"

	"verifharness/props"
)

func main() {
	seed, iters := int64(1), 30
	if len(os.Args) > 1 {
		seed, _ = strconv.ParseInt(os.Args[1], 10, 64)
	}
	if len(os.Args) > 2 {
		iters, _ = strconv.Atoi(os.Args[2])
	}
	// library packages log through google/logger on stdout at init; keep our own lines apart
	_ = syscall.Dup2(2, 1)
	if props.RaceStress(seed, iters) > 0 {
		os.Exit(3)
	}
}
