// verifcheck runs the correspondence / ground-truth part of one property check.
package main

import (
	"encoding/json"
	"flag"
	"fmt"
	"os"
	"runtime/debug"
	"strconv"

	"syscall"

	"verifharness/core"
	"verifharness/props"
)

var table = map[string]func(*core.Ctx){
	"C15": props.C15,
	"C09": props.C09,
	"C08": props.C08,
	"C14": props.C14,
	"C11": props.C11,
	"C04": props.C04,
	"C07": props.C07,
	"C01": props.C01,
	"C02": props.C02,
	"C03": props.C03,
	"C05": props.C05,
	"C06": props.C06,
	"C12": props.C12,
	"C10": props.C10,
	"C17": props.C17,
	"C16": props.C16,
	"C18": props.C18,
	"C19": props.C19,
	"C20": props.C20,
	"C13": props.C13,
}

func main() {
	// The library packages initialise github.com/google/logger on os.Stdout (fd 1) in their
	// init functions; keep our own stdout clean: move fd 1 to /dev/null and write to a duplicate.
	if fd, err := syscall.Dup(1); err == nil {
		if devnull, err := os.OpenFile(os.DevNull, os.O_WRONLY, 0); err == nil {
			_ = syscall.Dup2(int(devnull.Fd()), 1)
			os.Stdout = os.NewFile(uintptr(fd), "/dev/stdout")
		}
	}
	tier := flag.String("tier", "quick", "quick|thorough")
	seed := flag.Int64("seed", 1, "PRNG seed")
	replay := flag.String("replay", "", "replay file")
	flag.Parse()
	if flag.NArg() != 1 {
		fmt.Fprintln(os.Stderr, "usage: verifcheck [flags] Cxx")
		os.Exit(2)
	}
	prop := flag.Arg(0)
	if v := os.Getenv("VERIF_SEED"); v != "" && *replay == "" {
		if n, err := strconv.ParseInt(v, 10, 64); err == nil {
			*seed = n
		}
	}
	f, ok := table[prop]
	if !ok {
		fmt.Fprintln(os.Stderr, "unknown property", prop)
		os.Exit(2)
	}
	if *replay != "" {
		b, err := os.ReadFile(*replay)
		if err != nil {
			fmt.Fprintln(os.Stderr, err)
			os.Exit(2)
		}
		var r struct {
			Seed   int64  `json:"seed"`
			Tier   string `json:"tier"`
			CaseID int    `json:"case_id"`
			Kind   string `json:"kind"`
			Msg    string `json:"message"`
			Thm    string `json:"theorem_or_correspondence"`
		}
		if err := json.Unmarshal(b, &r); err != nil {
			fmt.Fprintln(os.Stderr, err)
			os.Exit(2)
		}
		if r.CaseID < 0 {
			fmt.Printf("replay: no concrete case recorded (%s): %s\n  %s\n", r.Kind, r.Thm, r.Msg)
			os.Exit(0)
		}
		c := core.NewCtx(prop, r.Tier, r.Seed)
		c.ReplayID = r.CaseID
		f(c)
		os.Exit(c.ReplayReport(r.CaseID))
	}
	c := core.NewCtx(prop, *tier, *seed)
	func() {
		// safety net: a panic that escapes a generator (library code reached outside a recover) must not
		// look like a passing or merely broken check
		defer func() {
			if p := recover(); p != nil {
				c.Crash(fmt.Sprintf("%v\n%s", p, debug.Stack()))
			}
		}()
		f(c)
	}()
	os.Exit(c.Finish())
}
